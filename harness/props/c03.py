"""C03 — SBC separates a two-material stack into exactly the two slabs."""
import json

import numpy as np

import common
import families as F
import sbc_common as SC
from common import prove

THEOREMS = ["Matid.Props.C03.sbc_two_slabs", "Matid.SBC.merge_two_disjoint", "Matid.SBC.localize_id_of_disjoint", "Matid.SBC.clean_connected"]
TRUSTED = ["stage models of the finder (SbcEntry, SpanGraph, BestBasis, AdaptiveCell, WithinBasis, ProtoAssemble, ProtoDecision, Region) with their theorems as obligations; tied by recorded-call correspondence in THIS run: the answers of sub-functions modelled elsewhere (get_matches, get_matches_simple, get_positions_within_basis, _find_best_basis inside the span-graph replay) are recorded and handed to the model as oracle data (recorders in harness/sbc_common.py, harness/region_model.py)", "rule translators gen_sbc_rule / gen_proto_rule / gen_region_rule / gen_assemble_rule / gen_dim_rule (AST facts; a harmless refactoring can flip one)",
           "Lean 4 kernel", "axioms: propext, Classical.choice, Quot.sound at most", "the pipeline model of C01 (tied there by correspondence)",
           "contract F on the periodic finder (started in slab X it returns exactly X): SAMPLED on the family, not proved"]
EXPL = ("Conditional Lean theorem (sbc_two_slabs): two clusters that share no atom are, for every non-negative merge threshold and every merge radius, neither merged "
        "nor changed by localisation, and cleaning keeps each connected slab whole — in either discovery order. That the finder started in one slab returns exactly "
        "that slab (contract F) is a statement about the heuristic finder; it and the property are sampled on commensurate metal stacks that pass the independent precondition.")
FCC = {"Al": 4.05, "Ni": 3.52, "Cu": 3.61, "Rh": 3.80, "Pd": 3.89, "Ag": 4.09, "Ir": 3.84, "Pt": 3.92, "Au": 4.08, "Pb": 4.95, "Ca": 5.58, "Sr": 6.08}
BCC = {"Fe": 2.87, "Cr": 2.88, "V": 3.03, "Nb": 3.30, "Mo": 3.15, "Ta": 3.30, "W": 3.16, "Ba": 5.02, "K": 5.23, "Na": 4.23, "Li": 3.49}


def gen(rng, k=None):
    from ase.build import fcc100, fcc111, bcc100, bcc110
    # stratified over (facet, stacking): the samples of a run cycle through the four facets and, for each, through
    # vacuum-separated stacks (periodic or not along z) and vacuum-free periodic stacks (superlattice A|B|A|B…)
    fam = int(rng.integers(0, 4)) if k is None else k % 4
    stacking = int(rng.integers(0, 3)) if k is None else (k // 4) % 3
    table, builder, facet = [(FCC, fcc100, "fcc100"), (FCC, fcc111, "fcc111"), (BCC, bcc100, "bcc100"), (BCC, bcc110, "bcc110")][fam]
    names = list(table)
    A = rng.choice(names)
    close = [x for x in names if x != A and abs(table[A] - table[x]) / table[A] < 0.05]
    if not close:
        return None, {"bottom": str(A)}, None, "no partner within 5 % mismatch"
    B = rng.choice(close)
    mismatch = abs(table[A] - table[B]) / table[A]
    desc = {"bottom": str(A), "top": str(B), "facet": facet, "mismatch": round(float(mismatch), 4)}
    if mismatch >= 0.05:
        return None, desc, None, "lattice mismatch >= 5 %"
    n = int(rng.integers(4, 6))
    while n * table[A] * 0.6 < 2 * F.MAX_CELL + 0.5 and n < 9:   # small lattice constants need more repeats for the lateral height
        n += 1
    l1, l2 = int(rng.integers(3, 6)), int(rng.integers(3, 6))
    if k is not None and (k // 12) % 2 == 0:     # stratum index: facet (4) x stacking (3) x thin/any (2)
        l1, l2 = [(3, 3), (3, 4), (4, 3)][int(rng.integers(0, 3))]        # thin slabs: each sees its own image through the other
    if stacking == 2:
        s = builder(str(A), (n, n, l1 + l2), a=table[A], periodic=True)   # no vacuum: the stack repeats along z
    else:
        s = builder(str(A), (n, n, l1 + l2), a=table[A], vacuum=8.0)
    z = s.get_positions()[:, 2]
    levels = np.unique(np.round(z, 3))
    top = np.isin(np.round(z, 3), levels[l1:])
    sym = [str(B) if t else str(A) for t in top]
    s.set_chemical_symbols(sym)
    if k is not None and (k // 24) % 2 == 1 and len(levels) == l1 + l2:
        # the upper slab is strained in-plane to the lower one but keeps its own interlayer spacing; the interface spacing is
        # the mean of the two (the other half of the samples puts both slabs on the lower crystal's lattice)
        layer = np.searchsorted(levels, np.round(z, 3))
        dA = levels[1] - levels[0]
        dB = dA * table[B] / table[A]
        newz = np.array([levels[0] + j * dA if j < l1 else levels[0] + (l1 - 1) * dA + 0.5 * (dA + dB) + (j - l1) * dB for j in range(l1 + l2)])
        pos = s.get_positions()
        grow = (newz[-1] - newz[0]) - (levels[-1] - levels[0])
        pos[:, 2] = newz[layer]
        s.set_positions(pos)
        c = np.array(s.get_cell())
        c[2, 2] += grow
        s.set_cell(c)
        desc["own_interlayer_spacing"] = True
    pz = True if stacking == 2 else bool(stacking)
    s.set_pbc([True, True, pz])
    desc.update({"repeat": n, "layers": [l1, l2], "pbc_z": pz, "vacuum": stacking != 2, "natoms": len(s)})
    if F.heights(s.get_cell())[:2].min() < 2 * F.MAX_CELL + 0.5:
        return None, desc, None, "lateral height below 2*max_cell_size"
    import matid.geometry as G
    gaps = F.nn_gaps(s)
    if gaps.max() > F.BOND - 0.1:
        return None, desc, None, "nearest neighbours not bonded with margin"
    if gaps.min() < F.OVERLAP + 0.1:
        return None, desc, None, "overlapping atoms"
    for part in (s[~top], s[top]):
        if G.get_dimensionality(part, F.BOND - 0.1) != 2:
            return None, desc, None, "a slab is not a bonded 2D network with margin"
    return s, desc, (set(np.flatnonzero(~top).tolist()), set(np.flatnonzero(top).tolist())), None


ADAPTIVE = []
ASSEMBLE = []
SPAN = []
BEST = []
import bestbasis_model
import assemble_model
import span_model
ENTRY = []
PIPELINE = []
PICK_RNG = np.random.default_rng(30303)     # separate stream: keeps the fixed sample the validated one
import region_model
REGION_REC = region_model.RegionRecorder(max_records=40, stride=4)


def sample_stacks(ctx, target, directed=False):
    """the property on members of the family; `directed`: periodic stacking direction and rattled atoms only (the situations in
    which the prototype-cell search has to look into neighbouring periodic images) — used when a proof/correspondence is broken"""
    from matid.clustering import SBC
    import crystals
    rng = np.random.default_rng(common.sample_seed(ctx) + (33 if directed else 3))
    done = k = 0
    f_ok = f_fail = 0
    bad = []
    tries = 0
    while done < target and k < target * 15:
        k += 1
        s, desc, parts, why = gen(rng, (done // 4) * 12 + 4 + done % 4 + (4 if done % 8 >= 4 else 0) + (24 if (done // 4) % 2 else 0)) if directed else gen(rng, done)          # stratum = number of accepted samples so far
        if why is not None:
            ctx.count("skipped: " + why)
            tries += 1
            if tries > 12:                            # this stratum has no member for the drawn elements: move on
                done += 1
                tries = 0
                ctx.count("stratum_without_member")
            continue
        tries = 0
        noise = 0.03 if directed else [0.0, 0.03][int(rng.integers(0, 2))]
        a = s.copy()
        if directed:
            # put the lowest layer onto the cell face z = 0 (and the first row onto y = 0): rattled atoms then sit on both sides of
            # a periodic boundary and the prototype-cell search has to collect them from neighbouring images
            pos = a.get_positions()
            a.translate([0.0, -pos[:, 1].min() if done % 2 else 0.0, -pos[:, 2].min()])
            desc["shifted_onto_cell_face"] = True
        if noise:
            a.rattle(noise / 2, seed=int(rng.integers(0, 10 ** 6)))
        if not a.get_pbc().all() and done % 5 == 2:
            # directed: the same stack in a box whose non-periodic vector is a short dummy (the atoms do not fit: the entry of get_clusters
            # has to enlarge the box); positions are not touched
            ax_ = [i for i in range(3) if not a.get_pbc()[i]][0]
            c_ = np.array(a.get_cell())
            c_[ax_] *= 3.0 / np.linalg.norm(c_[ax_])
            a.set_cell(c_, scale_atoms=False)
            desc["dummy_short_cell_vector"] = True
            ctx.count("stack_in_short_dummy_box")
        perm = rng.permutation(len(a))
        a = a[perm]
        inv = {int(old): new for new, old in enumerate(perm)}
        A = {inv[i] for i in parts[0]}
        B = {inv[i] for i in parts[1]}
        seed = int(rng.integers(0, 1000))
        desc.update({"noise": noise, "seed": seed})
        done += 1
        try:
            with SC.FinderRecorder() as rec, SC.ProtoRecorder() as prec, REGION_REC:
                clusters = SBC().get_clusters(a, seed=seed)
            if len(ADAPTIVE) < 500:
                ADAPTIVE.extend(prec.adaptive[:40])
            if len(ASSEMBLE) < 60:
                ASSEMBLE.extend(prec.assemble[:3])
            if len(BEST) < 24:
                BEST.extend(prec.best[:3])
            if len(SPAN) < 20:
                SPAN.extend(prec.span[:2])
            if len(a) <= 300 and len(PIPELINE) < 14:
                PIPELINE.append((SC.sbcrun_line(a, clusters, rec), clusters, dict(desc)))
            if len(ENTRY) < 200:
                import finder_helpers as FH
                ENTRY.extend(FH.entry_items(a, rec.system, PICK_RNG, "stack"))
            dims = [c.get_dimensionality() for c in clusters]
        except Exception as e:  # noqa
            bad.append({"desc": desc, "complaint": "exception %s: %s" % (type(e).__name__, str(e)[:150]), "atoms": crystals.atoms_to_json(a)})
            continue
        ctx.case(("c03", json.dumps(desc, sort_keys=True, default=str)), nontrivial=True, sample=desc if len(ctx.samples) < 5 else None)
        holds = all(c["basis"] is not None and (set(c["basis"]) | {c["seed"]}) in (A, B) for c in rec.calls)
        f_ok += holds
        f_fail += not holds
        got = sorted(sorted(int(i) for i in c.indices) for c in clusters)
        if got != sorted([sorted(A), sorted(B)]):
            bad.append({"desc": desc, "complaint": "clusters of sizes %s instead of the two slabs (%d, %d atoms)" % ([len(g) for g in got], len(A), len(B)), "atoms": crystals.atoms_to_json(a)})
        elif dims != [2, 2]:
            bad.append({"desc": desc, "complaint": "cluster dimensionalities %s, expected [2, 2]" % dims, "atoms": crystals.atoms_to_json(a)})
    return bad, f_ok, f_fail


def run(ctx):
    common.install_matid()
    from matid.clustering import SBC
    import crystals
    broken = []
    ok, info = prove(ctx, "MatidProps.C03", THEOREMS)
    if not ok:
        broken.append(("proof", info))
    bad, f_ok, f_fail = sample_stacks(ctx, ctx.n(36, 600))
    ctx.coverage["contract_F_held"] = f_ok
    ctx.coverage["contract_F_failed_but_property_judged_separately"] = f_fail
    for b in bad[:5]:
        ctx.finding("stack:%s/%s:%s" % (b["desc"]["bottom"], b["desc"]["top"], b["desc"]["facet"]), "%s on %s %s: %s" % (b["desc"]["top"], b["desc"]["bottom"], b["desc"]["facet"], b["complaint"]),
                    {"kind": "failing-input", "case": b, "how": "SBC().get_clusters(atoms, seed=seed) with default parameters"})
    import finder_helpers
    finder_helpers.check(ctx, broken, ADAPTIVE, ENTRY)
    region_model.check(ctx, broken, REGION_REC.records)
    assemble_model.check(ctx, broken, ASSEMBLE)
    span_model.check(ctx, broken, SPAN)
    bestbasis_model.check(ctx, broken, BEST)
    finder_helpers.pipeline_corr(ctx, broken, PIPELINE)
    if broken and not bad:
        bad, f2, f3 = sample_stacks(ctx, ctx.n(60, 300), directed=True)
        for b in bad[:5]:
            ctx.finding("stack:%s/%s:%s" % (b["desc"]["bottom"], b["desc"]["top"], b["desc"]["facet"]), "%s on %s %s (directed): %s" % (b["desc"]["top"], b["desc"]["bottom"], b["desc"]["facet"], b["complaint"]),
                        {"kind": "failing-input", "case": b, "how": "SBC().get_clusters(atoms, seed=seed) with default parameters"})
    if broken and not ctx.unknown_findings():
        ctx.finding("unproved", "conditional theorem no longer checks, no failing stack found", {"kind": "broken-obligation", "broken": broken}, found_input=False)
    ctx.coverage["broken"] = [{"what": k_, "info": i} for k_, i in broken]
    return common.finish(ctx, "other", "commensurate two-metal stacks passing the independent precondition (distinct = distinct (pair, facet, layers, repeat, pbc, noise, seed))",
                         TRUSTED, "cd /verif/lean && lake build MatidProps.C03 (+ #print axioms)", explanation=EXPL)


def replay(path):
    common.install_matid()
    import crystals
    from matid.clustering import SBC
    r = json.load(open(path))
    c = r["case"]
    cl = SBC().get_clusters(crystals.atoms_from_json(c["atoms"]), seed=c["desc"]["seed"])
    print("now:", [len(x.indices) for x in cl], [x.get_dimensionality() for x in cl], "|", c["complaint"])
    return 0
