"""C18 — classifier recognises pristine slabs and monolayers and isolates adsorbates."""
import json

import numpy as np

import common
import families as F
import sbc_common as SC
from common import prove

THEOREMS = ["Matid.Props.C18.surface_with_outliers", "Matid.Props.C18.outliers_are_adsorbates", "Matid.Props.C17.classify_total"]
TRUSTED = ["stage models of the finder (SbcEntry, SpanGraph, BestBasis, AdaptiveCell, WithinBasis, ProtoAssemble, ProtoDecision, Region) with their theorems as obligations; tied by recorded-call correspondence in THIS run: the answers of sub-functions modelled elsewhere (get_matches, get_matches_simple, get_positions_within_basis, _find_best_basis inside the span-graph replay) are recorded and handed to the model as oracle data (recorders in harness/sbc_common.py, harness/region_model.py)", "rule translators gen_sbc_rule / gen_proto_rule / gen_region_rule / gen_assemble_rule / gen_dim_rule (AST facts; a harmless refactoring can flip one)",
           "Lean 4 kernel", "axioms: propext, Classical.choice, Quot.sound at most", "the classifier model of C17 (tied there by correspondence)",
           "contract F on the periodic finder started from the classifier's seeds (its region's basis atoms are exactly the slab): SAMPLED, not proved"]
EXPL = ("Conditional Lean theorem (surface_with_outliers / outliers_are_adsorbates): given dimensionality 2 and a region whose basis atoms are the slab, with coverage >= "
        "min_coverage and two connected directions, the class is Surface (Material2D when the region is 2D) and the outliers are exactly the non-slab atoms. "
        "That the finder finds exactly the slab is sampled on the stated family (pristine low-index slabs of >= 3 layers, lateral height >= 10 A, 0-2 adsorbates; monolayer supercells).")
ADS = [1, 8, 6, 7, 17]


def gen(rng, k):
    from ase import Atoms
    from ase.data import covalent_radii
    if k % 4 == 3:
        name, make, _ = F.monolayers()[int(rng.integers(0, len(F.monolayers())))]
        rep = int(rng.integers(3, 7))
        s = make().repeat((rep, rep, 1))
        s.set_pbc(True)
        return s, {"crystal": name, "kind": "monolayer", "repeat": rep}, set(), "Material2D", None
    els, comps = F.reference_elements(), F.compounds()
    if k % 3 == 2:
        name, make, _ = comps[int(rng.integers(0, len(comps)))]
        conv, st = make(), "compound"
    else:
        name, st, par = els[int(rng.integers(0, len(els)))]
        conv = F.conventional(name, st, par)
    hkl = [(1, 0, 0), (1, 1, 0), (1, 1, 1), (0, 0, 1)][int(rng.integers(0, 4))]
    desc = {"crystal": name, "structure": st, "kind": "slab", "hkl": hkl}
    # stated exclusions: open / thin bcc (110), (111) and hcp (111)-type cuts
    if st == "bcc" and hkl not in ((1, 0, 0), (0, 0, 1)):
        return None, desc, None, None, "excluded facet (bcc)"
    if st == "hcp" and hkl == (1, 1, 1):
        return None, desc, None, None, "excluded facet (hcp)"
    layers = int(rng.integers(3, 6))
    try:
        s = F.slab(conv, hkl, layers, vacuum=8.0, target=10.0)
    except Exception:
        return None, desc, None, None, "slab construction failed"
    desc["layers"] = layers
    if len(s) > 400:
        return None, desc, None, None, "too many atoms"
    why = F.precondition(conv, 3) or F.precondition(conv, 2, structure=s)
    if why:
        return None, desc, None, None, why
    nads = int(rng.integers(0, 3))
    ads = set()
    if nads:
        species = [z for z in ADS if z not in set(s.get_atomic_numbers().tolist())]
        pos = s.get_positions()
        top = np.flatnonzero(pos[:, 2] > pos[:, 2].max() - 0.3)
        sites = rng.choice(top, min(nads, len(top)), replace=False)
        for site in sites:
            z = int(species[int(rng.integers(0, len(species)))])
            h = covalent_radii[z] + covalent_radii[s.get_atomic_numbers()[site]] + 0.15       # on-top, at bonding height
            s += Atoms(numbers=[z], positions=[pos[site] + [0, 0, h]])
            ads.add(len(s) - 1)
        # adsorbates must not be bonded to each other into something periodic: keep them apart
        if len(ads) == 2:
            p = s.get_positions()[sorted(ads)]
            if np.linalg.norm(p[0] - p[1]) < 4.0:
                return None, desc, None, None, "adsorbates too close"
    desc["adsorbates"] = len(ads)
    return s, desc, ads, "Surface", None


def run(ctx):
    common.install_matid()
    from matid.classification.classifier import Classifier
    import crystals
    import region_model
    region_rec = region_model.RegionRecorder(max_records=ctx.n(40, 300), stride=2)
    broken = []
    terr = common.regen(ctx, ("region_rule", "dim_rule", "classifier_rule"))
    if terr:
        broken.append(("translator", terr))
    ok, info = prove(ctx, "MatidProps.C18", THEOREMS)
    if not ok:
        broken.append(("proof", info))
    rng = np.random.default_rng(common.sample_seed(ctx) + 18)
    recorded = [e["repro"] for e in common.known_findings().get("known", []) if e.get("property") == "C18" and "repro" in e]
    # directed: slabs whose FIRST lateral cell vector is longer than the largest cell size searched (12 A) and whose second is shorter (and the
    # other way round), one adsorbate: the short periodic vector is itself a candidate span and has to carry the index of its cell axis
    from ase.build import fcc100, fcc110, add_adsorbate
    drng = np.random.default_rng(1818)
    for nm, mk in (("Cu", lambda: fcc100("Cu", (5, 4, 3), a=3.61, vacuum=8.0)), ("Cu", lambda: fcc100("Cu", (4, 5, 3), a=3.61, vacuum=8.0)),
                   ("Cu", lambda: fcc110("Cu", (4, 4, 3), a=3.61, vacuum=8.0))):
        s_ = mk()
        add_adsorbate(s_, "O", 1.8, "ontop")
        s_.set_pbc([True, True, False])
        for variant in range(1):          # as built only: the presented Cu(110) 4x4 variant is one of the reference's own failures
            a_ = s_.copy()
            if variant:
                a_ = F.present(a_, drng, noise=0.0)
            ads_ = [i for i, z in enumerate(a_.get_atomic_numbers()) if z == 8]
            recorded.append({"atoms": crystals.atoms_to_json(a_), "desc": {"crystal": nm, "kind": "slab", "hkl": "directed-long-short", "layers": 3, "adsorbates": 1,
                             "directed": True, "variant": variant, "cell": [round(float(x), 2) for x in a_.cell.lengths()]}, "expect": "Surface", "adsorbate_indices": ads_})
    target = ctx.n(14, 400)
    done = k = 0
    bad = []
    span_records = []
    cv_lines, cv_real = [], []
    f_ok = f_fail = 0
    while done < target and k < target * 10:
        if recorded:
            r = recorded.pop(0)
            a, desc, expect = crystals.atoms_from_json(r["atoms"]), dict(r["desc"], known_finding_input=not r["desc"].get("directed")), r["expect"]
            A = set(r["adsorbate_indices"])
        else:
            s, desc, ads, expect, why = gen(rng, k)
            k += 1
            if why is not None:
                ctx.count("skipped: " + why)
                continue
            perm = rng.permutation(len(s))
            a = F.present(s[perm], rng, noise=0.0)       # present() permutes again; track the adsorbates through both
            # identify adsorbates by species (absent from the slab by construction)
            slab_species = set(s.get_atomic_numbers()[[i for i in range(len(s)) if i not in ads]].tolist())
            A = {i for i, z in enumerate(a.get_atomic_numbers()) if int(z) not in slab_species}
            desc["natoms"] = len(a)
            done += 1
        ctx.count("kind_" + desc["kind"])
        try:
            with SC.FinderRecorder() as rec, region_rec, SC.ProtoRecorder() as prec_:
                c = Classifier().classify(a)
            if len(span_records) < ctx.n(16, 120):
                span_records.extend(prec_.span[:1])
        except Exception as e:  # noqa
            bad.append({"desc": desc, "complaint": "exception %s: %s" % (type(e).__name__, str(e)[:150]), "atoms": crystals.atoms_to_json(a)})
            continue
        name = type(c).__name__
        if all(r["basis"] is None or r["region"] is not None for r in rec.calls):
            from geom_common import fs as _fs
            regs = ["none" if r["basis"] is None else "%d.%d.%d.%d" % (len(r["basis"]), int(np.sum(r["region"].get_connected_directions())), int(bool(r["region"].is_2d)), i + 1)
                    for i, r in enumerate(rec.calls)]
            cv_lines.append("classify 2 %d %s %s" % (len(a), _fs(0.5), ";".join(regs) or "-"))
            chosen = [i + 1 for i, r in enumerate(rec.calls) if r["region"] is not None and r["region"] is getattr(c, "region", None)]
            cv_real.append((name, chosen[0] if chosen else 0))
        ctx.case(("c18", json.dumps(desc, sort_keys=True, default=str)), nontrivial=True, sample=dict(desc, result=name) if len(ctx.samples) < 5 else None)
        holds = any(r["basis"] is not None and set(r["basis"]) == set(range(len(a))) - A for r in rec.calls)
        f_ok += holds
        f_fail += not holds
        if name != expect:
            bad.append({"desc": desc, "signature": "%s-instead-of-%s" % (name, expect), "expect": expect, "adsorbate_indices": sorted(int(i) for i in A),
                        "complaint": "classified as %s, expected %s" % (name, expect), "atoms": crystals.atoms_to_json(a)})
        elif set(int(i) for i in c.outliers) != A:
            bad.append({"desc": desc, "signature": "outliers", "expect": expect, "adsorbate_indices": sorted(int(i) for i in A),
                        "complaint": "outliers %s, adsorbates %s" % (sorted(int(i) for i in c.outliers)[:6], sorted(A)[:6]), "atoms": crystals.atoms_to_json(a)})
    ctx.coverage["contract_F_held"] = f_ok
    ctx.coverage["contract_F_failed_but_property_judged_separately"] = f_fail
    seen = set()
    for b in bad:
        d = b["desc"]
        key = "slab:%s:%s:L%s:ads%s:%s" % (d["crystal"], "".join(map(str, d.get("hkl", ""))) or "2D", d.get("layers", "-"), d.get("adsorbates", 0), b.get("signature", "exception"))
        if key in seen or len(seen) >= 12:
            continue
        seen.add(key)
        ctx.finding(key, "%s %s: %s" % (b["desc"]["crystal"], b["desc"].get("hkl", ""), b["complaint"]),
                    {"kind": "failing-input", "case": b, "how": "Classifier().classify(atoms)"})
    import finder_helpers
    finder_helpers.check(ctx, broken)
    region_model.check(ctx, broken, region_rec.records)
    import span_model
    span_model.check(ctx, broken, span_records)
    # the dispatch of classify and the cross-validation over seeds / tolerances (which region wins) against the Lean model, on prepared
    # region answers (shared with C17) and on the region answers recorded in the runs above
    from props import c17
    ok17, info17 = prove(ctx, "MatidProps.C17", ["Matid.Props.C17.crossValidate_mem", "Matid.Props.C17.refined_has_region"])
    if not ok17:
        broken.append(("classifier-dispatch-proof", info17))
    try:
        dm = c17.synthetic_dispatch(ctx, ctx.n(300, 5000))
        if cv_lines:
            for (name_, rid_), o in zip(cv_real, common.driver(cv_lines)):
                parts = o.split(" ")
                ctx.count("recorded_cross_validations")
                if parts[0] != name_ or (name_ in ("Surface", "Material2D") and int(parts[1].split("=")[1]) != rid_):
                    dm.append({"what": "cross-validation on the recorded region answers", "model": o, "real": "%s region=%d" % (name_, rid_)})
    except common.DriverError as e:
        broken.append(("driver", {"error": str(e)[-800:]}))
        dm = []
    if dm:
        broken.append(("classifier-dispatch-correspondence", {"function": "Classifier.classify / cross_validate_region", "count": len(dm), "mismatches": dm[:3]}))
    if broken and not ctx.unknown_findings():
        ctx.finding("unproved", "conditional theorem no longer checks, no failing structure found", {"kind": "broken-obligation", "broken": broken}, found_input=False)
    ctx.coverage["broken"] = [{"what": k_, "info": i} for k_, i in broken]
    return common.finish(ctx, "other", "pristine slabs (3-5 layers, lateral height >= 10 A, 0-2 on-top adsorbates) and monolayer supercells passing the independent precondition, rotated/translated/permuted",
                         TRUSTED, "cd /verif/lean && lake build MatidProps.C18 (+ #print axioms)", explanation=EXPL)


def replay(path):
    common.install_matid()
    import crystals
    from matid.classification.classifier import Classifier
    r = json.load(open(path))
    c = Classifier().classify(crystals.atoms_from_json(r["case"]["atoms"]))
    print("now:", type(c).__name__, getattr(c, "outliers", None), "|", r["case"]["complaint"])
    return 0
