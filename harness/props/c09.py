"""C09 — dimensionality is the rank of the periodic bonding network, however presented."""
import itertools
import json

import numpy as np

import common
import geom_common as GC
from common import prove, driver

P = "Matid.Props.C09."
THEOREMS = [P + t for t in ("components_times_stabiliser", "stabiliser_is_closed_walk_group", "components_power_of_two", "dimension_in_range",
                            "log2_table", "wrap_inside_cell", "bond_matrix_wellformed", "components_are_connected_components",
                            "count_is_number_of_components", "bonded_2x_iff")]
TRUSTED = ["Lean 4 kernel + Mathlib (orbit-stabiliser, Lagrange)", "axioms: propext, Classical.choice, Quot.sound at most (audited per run)",
           "hand-written model MatidModel/Dim.lean (on MatidModel/Geom.lean), tied by the correspondence; tools/gen_dim_rule.py (entry wrap, cutoff formula, repeat factor, log base read from the AST)",
           "DBSCAN contract D1 (min_samples=1, precomputed: labels = connected components of dist <= eps) monitored on every sampled call",
           "the link executable component counter <-> cardinality of the quotient in the covering theorem is by correspondence, not proved"]


def gen_structure(rng, k):
    cell, kind = GC.rand_cell(rng, ["orthogonal", "triclinic", "sheared", "rotated"][k % 4] if k % 5 else None)
    if kind in ("needle", "plate"):
        cell, kind = GC.rand_cell(rng, "triclinic")
    n = int(rng.integers(1, 13))
    shape = ("gas", "layer", "chain", "blob")[int(rng.integers(0, 4))]
    f = rng.integers(0, 32, (n, 3)) / 32.0
    if shape == "layer":
        f[:, 2] = rng.integers(12, 16, n) / 32.0
    elif shape == "chain":
        f[:, 1] = rng.integers(12, 15, n) / 32.0
        f[:, 2] = rng.integers(12, 15, n) / 32.0
    elif shape == "blob":
        f = rng.integers(10, 20, (n, 3)) / 32.0
    f = np.unique(f, axis=0)
    pos = f @ cell
    pbc = [bool((k >> i) & 1) for i in range(3)]
    return cell, kind, shape, pos, pbc


def oracle_dim(pos, cell, pbc, radii, thr):
    """union-find over images with translation offsets; returns (None | rank_Z, rank_F2, n_components)"""
    n = len(pos)
    reach = thr + 2 * max(radii)
    if reach <= 0:
        return "no-bonds", None, None
    edges = []
    for i in range(n):
        for j in range(n):
            s = thr + radii[i] + radii[j]
            if s < 0:
                continue
            ns, _ = GC.images_within(cell, pbc, pos[i] - pos[j], s)
            for nv in ns:
                if i == j and not nv.any():
                    continue
                edges.append((i, j, tuple(int(v) for v in nv)))     # r_i bonded to r_j + n·cell
    parent = list(range(n))

    def find(x):
        while parent[x] != x:
            parent[x] = parent[parent[x]]
            x = parent[x]
        return x
    for i, j, _ in edges:
        parent[find(i)] = find(j)
    ncomp = len({find(i) for i in range(n)})
    if ncomp > 1:
        return None, None, ncomp
    # potentials along a spanning tree: o(j) = o(i) + n for an edge i -> j + n
    off = {0: np.zeros(3, dtype=int)}
    adj = {}
    for i, j, nv in edges:
        adj.setdefault(i, []).append((j, np.array(nv)))
        adj.setdefault(j, []).append((i, -np.array(nv)))
    stack = [0]
    while stack:
        u = stack.pop()
        for v, nv in adj.get(u, []):
            if v not in off:
                off[v] = off[u] + nv
                stack.append(v)
    cyc = [off[i] + np.array(nv) - off[j] for i, j, nv in edges]
    cyc = np.array([c for c in cyc if c.any()], dtype=int).reshape(-1, 3)
    rz = int(np.linalg.matrix_rank(cyc)) if len(cyc) else 0
    # rank over GF(2)
    M = (cyc % 2).astype(int)
    r2 = 0
    rows = [r.copy() for r in M]
    for col in range(3):
        piv = next((r for r in rows if r[col]), None)
        if piv is None:
            continue
        r2 += 1
        rows = [(r ^ piv if r[col] else r) for r in rows if r is not piv]
    return rz, r2, 1


def real_dim(pos, cell, pbc, radii, thr, numbers=None):
    import matid.geometry as G
    from ase import Atoms
    a = Atoms(numbers=numbers if numbers is not None else [6] * len(pos), positions=pos, cell=cell, pbc=pbc)
    return G.get_dimensionality(a, thr, radii=np.array(radii, dtype=float), return_clusters=True)


def canon_clusters(cl):
    return sorted(sorted(int(i) for i in c) for c in cl)


def run(ctx):
    common.install_matid()
    broken = []
    terr = common.regen(ctx, ("dim_rule",))
    if terr:
        for t in THEOREMS:
            ctx.obligations.append((t, False))
        broken.append(("translator", terr))
    else:
        ok, info = prove(ctx, "MatidProps.C09", THEOREMS)
        if not ok:
            broken.append(("proof", info))
    rng = np.random.default_rng(ctx.seed + 9)
    ncase = ctx.n(500, 20000)
    lines, cases = [], []
    for k in range(ncase):
        cell, kind, shape, pos, pbc = gen_structure(rng, k)
        n = len(pos)
        radii = rng.integers(10, 90, n) * 2 / 128.0           # multiples of 1/64
        thr = (2 * int(rng.integers(20, 220)) + 1) / 4096.0 * 8   # odd/512: no exact ties with distances on the grid
        disp = "inside"
        p2 = pos.copy()
        if k % 3 == 0:
            sh = rng.integers(-5, 6, (n, 3)) * np.array(pbc, dtype=int)
            p2 = pos + sh @ cell
            disp = "displaced"
        cases.append((cell, kind, shape, p2, pos, pbc, radii, thr, disp))
        lines.append("dim %s %s %s %s %s" % (GC.fmt_vecs(cell), GC.fmt_pbc(pbc), GC.fs(thr), GC.fmt_vecs(radii), GC.fmt_vecs(p2)))
        ctx.count("shape_" + shape)
        ctx.count("pbc_" + GC.fmt_pbc(pbc))
        ctx.count("atoms_" + disp)
    try:
        out = driver(lines)
    except common.DriverError as e:
        broken.append(("driver", {"error": str(e)[-1000:]}))
        out = [None] * len(lines)
    mism, bad = [], []
    skipped_f2 = 0
    for (cell, kind, shape, p2, pos, pbc, radii, thr, disp), o, line in zip(cases, out, lines):
        case = {"cell": cell.tolist(), "pbc": pbc, "positions": p2.tolist(), "radii": radii.tolist(), "threshold": thr}
        try:
            dim, clusters = real_dim(p2, cell, pbc, radii, thr)
            real = ("None" if dim is None else str(int(dim)), canon_clusters(clusters))
        except Exception as e:  # noqa
            real = ("exception %r" % e, [])
        ctx.case(("dim", line), nontrivial=len(p2) > 1 and any(pbc), sample={"op": line[:160], "model": (o or "")[:60], "real": real[0]} if len(ctx.samples) < 3 else None)
        if o is not None:
            parts = o.split(" ")
            labels = [int(v) for v in parts[1].split(",")] if len(parts) > 1 else []
            groups = {}
            for i, l in enumerate(labels):
                groups.setdefault(l, []).append(i)
            if parts[0] != real[0] or sorted(groups.values()) != real[1]:
                mism.append({"case": case, "model": o[:200], "real": str(real)[:200]})
        # the property's own oracle (on the positions inside the cell: lattice shifts must not matter)
        rz, r2, ncomp = oracle_dim(pos, cell, pbc, radii, thr)
        if rz == "no-bonds":
            continue
        if rz is not None and rz != r2:
            skipped_f2 += 1
            continue
        exp = "None" if rz is None else str(rz)
        if real[0] != exp:
            bad.append({"case": case, "complaint": "get_dimensionality = %s, rank of the bonding network = %s (atoms %s)" % (real[0], exp, disp)})
    ctx.coverage["skipped_rankF2_ne_rankZ"] = skipped_f2
    # metamorphic clauses on the real code: supercell, basis change, reordering, rigid motion
    meta_bad = []
    for k in range(ctx.n(120, 3000)):
        cell, kind, shape, pos, pbc = gen_structure(rng, k)
        n = len(pos)
        radii = rng.integers(10, 90, n) * 2 / 128.0
        thr = (2 * int(rng.integers(20, 220)) + 1) / 512.0
        try:
            base = real_dim(pos, cell, pbc, radii, thr)[0]
            # reorder
            p = rng.permutation(n)
            v1 = real_dim(pos[p], cell, pbc, radii[p], thr)[0]
            # unimodular basis change restricted to the periodic axes
            U = np.eye(3, dtype=int)
            per = [i for i in range(3) if pbc[i]]
            if len(per) >= 2:
                i, j = rng.choice(per, 2, replace=False)
                U[i, j] = int(rng.integers(-2, 3))
            # … and the NON-periodic cell vectors leaning over a periodic one (b' = b + k a, |k| up to 7): they only describe the box,
            # the periodic lattice is the same
            nonper = [i for i in range(3) if not pbc[i]]
            if per and nonper:
                U[int(rng.choice(nonper)), int(rng.choice(per))] = int(rng.integers(-7, 8))
            v2 = real_dim(pos, U @ cell, pbc, radii, thr)[0]
            # supercell along a periodic axis
            v3 = base
            if per:
                ax = int(rng.choice(per))
                rep = [1, 1, 1]
                rep[ax] = int(rng.integers(2, 4))
                from ase import Atoms
                big = Atoms(numbers=[6] * n, positions=pos, cell=cell, pbc=pbc).repeat(rep)
                v3 = real_dim(big.get_positions(), np.array(big.get_cell()), pbc, np.tile(radii, int(np.prod(rep))), thr)[0]
            ctx.case(("meta", k, n, GC.fmt_pbc(pbc)))
            # the specified value of every presentation is the oracle's value for that presentation: a supercell along a
            # direction in which the network is NOT connected has several components, for which None is the specified answer
            def spec(p_, c_, r_):
                rz, r2, _ = oracle_dim(p_, c_, pbc, r_, thr)
                return "skip" if rz == "no-bonds" or (rz is not None and rz != r2) else rz
            exp = [spec(pos, cell, radii), spec(pos[p], cell, radii[p]), spec(pos, (U @ cell).astype(float), radii)]
            got = [base, v1, v2]
            if per:
                exp.append(spec(big.get_positions(), np.array(big.get_cell()), np.tile(radii, int(np.prod(rep)))))
                got.append(v3)
            if "skip" in exp:
                continue
            # invariance clauses: reorder and basis change never change the specified value
            if exp[0] != exp[1] or exp[0] != exp[2]:
                meta_bad.append({"case": {"cell": cell.tolist(), "pbc": pbc, "positions": pos.tolist(), "radii": radii.tolist(), "threshold": thr},
                                 "complaint": "ORACLE not invariant (harness error?): %s" % exp})
            if got != exp:
                meta_bad.append({"case": {"cell": cell.tolist(), "pbc": pbc, "positions": pos.tolist(), "radii": radii.tolist(), "threshold": thr},
                                 "complaint": "presentations (as given, reordered, other basis, supercell): got %s, rank of the bonding network %s" % (got, exp)})
        except Exception as e:  # noqa
            meta_bad.append({"case": {"cell": cell.tolist()}, "complaint": "exception %r" % e})
    if mism:
        broken.append(("correspondence", {"count": len(mism), "mismatches": mism[:5]}))
    for b in (bad + meta_bad)[:6]:
        ctx.finding("dim:" + b["complaint"][:60], b["complaint"], {"kind": "failing-input", "case": b["case"],
                    "how": "matid.geometry.get_dimensionality(Atoms(positions, cell, pbc), threshold, radii=np.array(radii), return_clusters=True)"})
    if broken and not ctx.unknown_findings():
        ctx.finding("unproved", "proof/correspondence broken, no failing input found", {"kind": "broken-obligation", "broken": broken}, found_input=False)
    ctx.coverage["broken"] = [{"what": k, "info": i} for k, i in broken]
    ctx.coverage["correspondence_mismatches"] = len(mism)
    ctx.assumptions += ["D1: DBSCAN(min_samples=1, metric=precomputed) labels = connected components of dist <= eps",
                        "inputs where rank over GF(2) differs from the integer rank are outside the explored family (counted, not judged)"]
    return common.finish(ctx, "proof", "1-12 atoms (gas/layer/chain/blob) in dyadic cells, all pbc combinations, custom radii, atoms inside the cell or displaced by up to ±5 lattice vectors: "
                         "Lean model vs real function; independent oracle (union-find over images with offsets, rank of the cycle lattice); metamorphic clauses on the real code",
                         TRUSTED, "cd /verif/lean && lake build MatidProps.C09 (+ #print axioms)")


def replay(path):
    common.install_matid()
    r = json.load(open(path))
    c = r["case"]
    if "positions" in c:
        print("now:", real_dim(np.array(c["positions"]), np.array(c["cell"]), c["pbc"], c["radii"], c["threshold"]))
    print(r.get("what"))
    return 0
