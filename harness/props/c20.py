"""C20 — cell and frame helpers preserve the physical structure."""
import json
from fractions import Fraction

import numpy as np

import common
import geom_common as GC
from common import prove, driver

P = "Matid.Props.C20."
THEOREMS = [P + t for t in ("cartesian_of_scaled", "scaled_of_cartesian", "wrap_integer", "wrap_periodic_only", "minimized_displacements",
                            "minimized_only_axis", "minimized_length", "minimized_inside", "swap_basis_spec", "complete_cell_orthogonal",
                            "com_translate", "com_lattice_shift", "inertia_translate")]
TRUSTED = ["Lean 4 kernel + Mathlib (complex exponential)", "axioms: propext, Classical.choice, Quot.sound at most (audited per run)",
           "hand-written model MatidModel/Frame.lean tied by the correspondence (exact rationals; results of solve/sqrt/eigh compared numerically at 1e-9)",
           "L1: LAPACK solve / eigh accurate on the sampled inputs; arctan2 computes the argument of the circular sum"]


def vecs(o):
    return np.array([[float(Fraction(v)) for v in p.split(",")] for p in o.split(";")])


def unimodular_cell(rng):
    """dyadic cell with determinant ±2^k so that fractional coordinates of dyadic points are dyadic"""
    U = GC.rand_unimodular(rng)
    D = np.diag([2.0 ** int(rng.integers(-1, 3)) for _ in range(3)])
    return (U @ D).astype(float), U


def corr(ctx, ncase):
    import matid.geometry as G
    from ase import Atoms
    rng = np.random.default_rng(ctx.seed + 20)
    lines, cases = [], []
    for k in range(ncase):
        op = ("scaled", "cartesian", "mincell", "inertia")[k % 4]
        cell, _ = (unimodular_cell(rng) if k % 3 else (GC.rand_cell(rng)[0], None))
        n = int(rng.integers(1, 11))
        pbc = [bool((k >> i) & 1) for i in range(2, 5)]
        ctx.count("op_" + op)
        if op == "scaled":
            pts = GC.dy(rng.uniform(-6, 6, (n, 3)))
            if k % 8 < 4:      # points ON cell faces / lattice points: fractional coordinates that are exactly 0, 1, -1, 2 or quarters
                pts = (rng.integers(-8, 9, (n, 3)) / 4.0) @ np.asarray(cell, dtype=float)
                ctx.count("scaled_points_on_faces")
            w = int(rng.integers(0, 2))
            lines.append("scaled %s %s %d %s" % (GC.fmt_vecs(cell), GC.fmt_pbc(pbc), w, GC.fmt_vecs(pts)))
            cases.append((op, cell, pbc, w, pts))
        elif op == "cartesian":
            fr = rng.integers(-128, 128, (n, 3)) / 32.0
            w = int(rng.integers(0, 2))
            lines.append("cartesian %s %s %d %s" % (GC.fmt_vecs(cell), GC.fmt_pbc(pbc), w, GC.fmt_vecs(fr)))
            cases.append((op, cell, pbc, w, fr))
        elif op == "mincell":
            cell = GC.rand_cell(rng)[0]
            fr = rng.integers(-64, 128, (n, 3)) / 64.0
            ax = int(rng.integers(0, 3))
            ms = float(GC.dy(rng.uniform(0.1, 3.0)))
            clen = float(np.linalg.norm(cell[ax]))
            s = Fraction(ms / clen)
            lines.append("mincell %s %d %s %d/%d %s" % (GC.fmt_vecs(cell), ax, GC.fs(ms), s.numerator, s.denominator, GC.fmt_vecs(fr)))
            cases.append((op, cell, pbc, (ax, ms), fr))
        else:
            pts = GC.dy(rng.uniform(-3, 3, (n, 3)))
            nums = rng.choice([1, 6, 8, 14, 26], n)
            lines.append(None)
            cases.append((op, cell, pbc, nums, pts))
    # inertia lines need the real centre: fill them in now
    for i, (op, cell, pbc, nums, pts) in enumerate(cases):
        if op == "inertia":
            a = Atoms(numbers=nums, positions=pts, cell=GC.rand_cell(np.random.default_rng(i))[0], pbc=pbc)
            cm = G.get_center_of_mass(a)
            w = int(i % 8 < 4)
            wts = a.get_masses() if w else np.ones(len(a))
            cases[i] = (op, a, pbc, w, (cm, wts))
            lines[i] = "inertia %s %s %s" % (GC.fmt_vecs(cm), GC.fmt_vecs(pts), GC.fmt_vecs(wts))
    out = driver(lines)
    mism = []
    for (op, cell, pbc, extra, data), o, line in zip(cases, out, lines):
        ctx.case((op, line), nontrivial=True, sample={"op": line[:150], "model": o[:100]} if len(ctx.samples) < 4 else None)
        why = None
        try:
            if op == "scaled":
                real = G.to_scaled(cell, np.array(data), wrap=bool(extra), pbc=pbc)
                model = vecs(o)
                d = real - model
                if extra:    # a value within rounding of an integer may wrap to 0 or to ~1
                    d[:, pbc] -= np.rint(d[:, pbc])
                if np.abs(d).max() > 1e-9:
                    why = "to_scaled differs by %g" % np.abs(d).max()
            elif op == "cartesian":
                real = G.to_cartesian(cell, np.array(data, dtype=float).copy(), wrap=bool(extra), pbc=pbc)
                if np.abs(real - vecs(o)).max() > 1e-9:
                    why = "to_cartesian differs"
            elif op == "mincell":
                ax, ms = extra
                a = Atoms(numbers=[6] * len(data), scaled_positions=data, cell=cell, pbc=pbc)
                m = G.get_minimized_cell(a, ax, ms)
                parts = dict(p.split("=") for p in o.split(" ") if "=" in p)
                if "row" not in parts:
                    why = "model: " + o
                else:
                    row = vecs(parts["row"])[0]
                    fr = vecs(parts["fracs"])
                    if np.abs(np.array(m.get_cell())[ax] - row).max() > 1e-9 * max(1, np.abs(row).max()):
                        why = "new cell vector differs"
                    elif np.abs(m.get_scaled_positions(wrap=False) - fr).max() > 1e-7:
                        why = "fractional positions differ by %g" % np.abs(m.get_scaled_positions(wrap=False) - fr).max()
            else:
                a = cell
                ev, evec = G.get_moments_of_inertia(a, weight=bool(extra))
                t = [float(Fraction(v)) for v in o.split(",")]
                T = np.array([[t[0], t[3], t[4]], [t[3], t[1], t[5]], [t[4], t[5], t[2]]])
                ev2 = np.linalg.eigvalsh(T)
                if np.abs(ev - ev2).max() > 1e-8 * max(1, np.abs(ev2).max()):
                    why = "eigenvalues differ from those of the model tensor"
                elif np.abs(T @ evec - evec * ev[None, :]).max() > 1e-7 * max(1, np.abs(ev2).max()):
                    why = "returned vectors are not eigenvectors of the inertia tensor"
        except Exception as e:  # noqa
            why = "exception %r" % e
        if why:
            mism.append({"op": line[:400], "model": o[:300], "why": why})
    return mism


def oracle(ctx, ncase):
    """the property's clauses evaluated numerically on the real code (support, not proof)"""
    import matid.geometry as G
    from ase import Atoms
    rng = np.random.default_rng(ctx.seed + 2020)
    bad = []

    def complain(what, **case):
        bad.append({"complaint": what, "case": case})
    for k in range(ncase):
        cell, kind = GC.rand_cell(rng)
        n = int(rng.integers(1, 11))
        pbc = np.array([bool((k >> i) & 1) for i in range(3)])
        pos = rng.uniform(-4, 8, (n, 3))
        nums = rng.choice([1, 6, 8, 14, 26, 79], n)
        a = Atoms(numbers=nums, positions=pos, cell=cell, pbc=pbc)
        case = {"cell": cell.tolist(), "positions": pos.tolist(), "numbers": nums.tolist(), "pbc": pbc.tolist()}
        ctx.case(("oracle", k, kind, n), nontrivial=True)
        try:
            f = G.to_scaled(cell, pos)
            if np.abs(G.to_cartesian(cell, f.copy()) - pos).max() > 1e-8:
                complain("to_cartesian(to_scaled(p)) != p", **case)
            if np.abs(G.to_scaled(cell, G.to_cartesian(cell, f.copy())) - f).max() > 1e-8:
                complain("to_scaled(to_cartesian(f)) != f", **case)
            fw = G.to_scaled(cell, pos, wrap=True, pbc=pbc)
            d = fw - f
            if np.abs(d[:, ~pbc]).max(initial=0) > 0 or np.abs(d - np.rint(d)).max() > 1e-9 or (fw[:, pbc] < 0).any() or (fw[:, pbc] >= 1 + 1e-12).any():
                complain("wrapping changes more than periodic components by integers", **case)
            ax = int(rng.integers(0, 3))
            ms = float(rng.uniform(0.1, 3.0))
            m = G.get_minimized_cell(a, ax, ms)
            D0 = pos[:, None, :] - pos[None, :, :]
            p1 = m.get_positions()
            if np.abs((p1[:, None, :] - p1[None, :, :]) - D0).max() > 1e-8 or list(m.get_atomic_numbers()) != list(nums):
                complain("get_minimized_cell changes mutual displacements / atoms", axis=ax, min_size=ms, **case)
            c0, c1 = np.array(cell), np.array(m.get_cell())
            others = [i for i in range(3) if i != ax]
            ext = (f[:, ax].max() - f[:, ax].min()) * np.linalg.norm(c0[ax])
            if np.abs(c1[others] - c0[others]).max() > 1e-12 or abs(np.linalg.norm(c1[ax]) - max(ext, ms)) > 1e-8 * max(1, ext):
                complain("minimised cell differs off-axis or has the wrong length", axis=ax, min_size=ms, **case)
            f1 = m.get_scaled_positions(wrap=False)[:, ax]
            if f1.min() < -1e-9 or f1.max() > 1 + 1e-9 or (ext < ms and abs(f1.min() + f1.max() - 1) > 1e-8):
                complain("atoms not inside / not centred along the minimised axis", axis=ax, min_size=ms, **case)
            i, j = rng.choice(3, 2, replace=False)
            b = a.copy()
            G.swap_basis(b, int(i), int(j))
            cb, pb = np.array(b.get_cell()), b.get_pbc()
            if np.abs(cb[i] - c0[j]).max() > 0 or np.abs(cb[j] - c0[i]).max() > 0 or pb[i] != pbc[j] or pb[j] != pbc[i] or np.abs(b.get_positions() - pos).max() > 0:
                complain("swap_basis does not exchange cell vectors / pbc flags or moves atoms", **case)
            L = float(rng.uniform(0.5, 9))
            cc = G.complete_cell(c0[0], c0[1], L)[0]
            if abs(cc @ c0[0]) > 1e-8 * L * np.linalg.norm(c0[0]) or abs(cc @ c0[1]) > 1e-8 * L * np.linalg.norm(c0[1]) or abs(np.linalg.norm(cc) - L) > 1e-9 * L:
                complain("complete_cell not orthogonal / wrong length", length=L, **case)
            # periodic centre of mass: rigid translation and lattice shifts of single atoms
            cm = G.get_center_of_mass(a)
            t = rng.uniform(-3, 3, 3)
            a2 = a.copy()
            a2.translate(t)
            d = np.linalg.solve(c0.T, (G.get_center_of_mass(a2) - cm - t))
            d[pbc] -= np.rint(d[pbc])
            if np.abs(d).max() > 1e-7:
                complain("centre of mass does not follow a rigid translation modulo the lattice", translation=t.tolist(), **case)
            a3 = a.copy()
            sh = rng.integers(-3, 4, (n, 3)) * pbc.astype(int)
            a3.set_positions(pos + sh @ c0)
            if np.abs(G.get_center_of_mass(a3) - cm).max() > 1e-7:
                complain("centre of mass depends on lattice shifts of individual atoms", **case)
            for w in (True, False):
                ev, evec = G.get_moments_of_inertia(a, weight=w)
                wt = a.get_masses() if w else np.ones(n)
                r = pos - cm
                T = sum(wi * ((ri @ ri) * np.eye(3) - np.outer(ri, ri)) for wi, ri in zip(wt, r))
                if np.abs(T @ evec - evec * ev[None, :]).max() > 1e-7 * max(1, np.abs(T).max()) or np.abs(evec.T @ evec - np.eye(3)).max() > 1e-8:
                    complain("get_moments_of_inertia is not the eigen-decomposition of the inertia tensor about the centre of mass", weight=w, **case)
        except Exception as e:  # noqa
            complain("exception %s: %s" % (type(e).__name__, str(e)[:150]), **case)
    return bad


def run(ctx):
    common.install_matid()
    broken = []
    ok, info = prove(ctx, "MatidProps.C20", THEOREMS)
    if not ok:
        broken.append(("proof", info))
    mism = []
    try:
        mism = corr(ctx, ctx.n(800, 40000))
    except common.DriverError as e:
        broken.append(("driver", {"error": str(e)[-1000:]}))
    if mism:
        broken.append(("correspondence", {"count": len(mism), "mismatches": mism[:5]}))
    bad = oracle(ctx, ctx.n(400, 20000))
    seen = set()
    for b in bad:
        key = b["complaint"][:45]
        if key in seen:
            continue
        seen.add(key)
        ctx.finding("helper:" + key, b["complaint"], {"kind": "failing-input", "case": b["case"]})
    if broken and not ctx.unknown_findings():
        ctx.finding("unproved", "proof/correspondence broken, no failing input found", {"kind": "broken-obligation", "broken": broken}, found_input=False)
    ctx.coverage["broken"] = [{"what": k, "info": i} for k, i in broken]
    ctx.coverage["correspondence_mismatches"] = len(mism)
    ctx.assumptions += ["L1: np.linalg.solve / eigh accurate to 1e-8 on the sampled cells", "np.arctan2 returns the argument of the circular sum (trigonometry is not modelled in Lean; only the algebra of the sum is proved)"]
    return common.finish(ctx, "proof", "to_scaled / to_cartesian / get_minimized_cell / inertia tensor on dyadic inputs vs the Lean model; all clauses of the property evaluated numerically on 1-10 atoms in six cell shapes",
                         TRUSTED, "cd /verif/lean && lake build MatidProps.C20 (+ #print axioms)")


def replay(path):
    r = json.load(open(path))
    print(json.dumps(r, indent=1)[:2500])
    return 0
