"""C12 — original, primitive and conventional descriptions are mutually consistent."""
import json
from collections import Counter
from fractions import Fraction

import numpy as np

import common
from common import prove, driver

P = "Matid.Props.C12."
THEOREMS = [P + t for t in ("centring_matrices_ok", "volume_ratio", "class_counts_ratio", "atom_count_ratio", "labels_one_per_atom")] + \
    ["Matid.Primitive.count_ratio", "Matid.Primitive.count_ratio_npUnique"]
TRUSTED = ["Lean 4 kernel", "axioms: propext, Classical.choice, Quot.sound at most (audited per run)",
           "tools/gen_centring.py (AST translator of the centring matrices and of the prim_cell expression), tools/gen_tables.py",
           "correspondence harness driving SymmetryAnalyzer._get_primitive_system with synthetic conventional systems"]
MULT = {"P": 1, "A": 2, "B": 2, "C": 2, "I": 2, "R": 3, "F": 4}


def frac_str(x):
    f = Fraction(x).limit_denominator(1 << 40)
    return "%d/%d" % (f.numerator, f.denominator)


def correspondence(ctx, n_cases):
    from ase import Atoms
    from matid.symmetry.symmetryanalyzer import SymmetryAnalyzer, AttrDict
    from matid.core.system import System
    rng = np.random.default_rng(ctx.seed + 12)
    lines, cases = [], []
    for k in range(n_cases):
        letter = "ACRIFP"[k % 6] if k % 13 else "B"     # 'B' is not in the dict: KeyError on both sides
        m = MULT[letter]
        nprim = int(rng.integers(1, 6))
        # mapping: each primitive label exactly m times (S2), occasionally violated to exercise the selection anyway
        labels = np.repeat(np.arange(nprim), m)
        if k % 11 == 0:
            labels = rng.integers(0, nprim, len(labels))
        labels = rng.permutation(labels)
        if rng.random() < 0.3:
            labels = labels * int(rng.integers(2, 5)) + int(rng.integers(0, 3))     # non-contiguous label values
        n = len(labels)
        cell = rng.integers(-64, 65, (3, 3)) / 16.0 + np.eye(3) * 6
        fr = rng.integers(-128, 128, (n, 3)) / 64.0
        nums = rng.choice([6, 8, 14, 26], n)
        wy = rng.choice(list("abcdef"), n)
        eq = rng.integers(0, 9, n)
        conv = System(numbers=nums, scaled_positions=fr % 1.0 if k % 2 else fr, cell=cell, pbc=True)
        frin = conv.get_scaled_positions(wrap=False) if k % 2 == 0 else fr % 1.0
        lines.append("prim %s %s %s %s" % (letter, ",".join(str(int(v)) for v in labels), ",".join(frac_str(v) for v in cell.flatten()),
                                           ",".join(frac_str(v) for v in np.asarray(fr % 1.0 if k % 2 else fr).flatten())))
        cases.append((letter, labels, cell, conv, nums, wy, eq))
        ctx.count("corr_centring_" + letter)
    out = driver(lines)
    mism = []
    for (letter, labels, cell, conv, nums, wy, eq), o, line in zip(cases, out, lines):
        sa = SymmetryAnalyzer(conv)
        sa._symmetry_dataset = AttrDict(std_mapping_to_primitive=np.array(labels, dtype=np.intc))
        try:
            psys, pw, pe = sa._get_primitive_system(conv, np.array(wy), np.array(eq), letter + "m-3m")
            err = None
        except KeyError:
            err = "KeyError"
        except Exception as e:  # noqa
            err = "exception %r" % e
        ctx.case(("corr", line), nontrivial=letter != "P", sample={"op": line[:150], "model": o[:120]} if len(ctx.samples) < 3 else None)
        ok = True
        why = ""
        if err is not None:
            ok = (o == err)
            why = "error kind"
        elif letter == "P":
            ok = psys is conv and o.startswith("P idx=")
        else:
            try:
                parts = dict(p.split("=") for p in o.split(" "))
                idx = [int(v) for v in parts["idx"].split(",")]
                mcell = np.array([float(Fraction(v)) for v in parts["cell"].split(",")]).reshape(3, 3)
                mfrac = np.array([float(Fraction(v)) for v in parts["frac"].split(",")]).reshape(-1, 3)
            except Exception:
                ok, why = False, "unparsable model output"
            if ok:
                if list(psys.get_atomic_numbers()) != list(nums[idx]) or list(pw) != list(np.array(wy)[idx]) or list(pe) != list(np.array(eq)[idx]):
                    ok, why = False, "selected atoms / labels"
                elif not np.allclose(np.array(psys.get_cell()), mcell, rtol=1e-9, atol=1e-9):
                    ok, why = False, "primitive cell"
                else:
                    d = (psys.get_scaled_positions(wrap=False) - mfrac)
                    d -= np.rint(d)
                    if np.abs(d).max() > 1e-6:
                        ok, why = False, "fractional positions"
        if not ok:
            mism.append({"op": line, "model": o, "real_error": err, "why": why})
    return mism


def check_crystal(a, n, meta):
    """the property's oracle on one crystal; returns list of complaints"""
    import spglib
    from matid.symmetry.symmetryanalyzer import SymmetryAnalyzer
    sa = SymmetryAnalyzer(a, symmetry_tol=1e-3)
    if sa.get_space_group_number() != n:
        return None
    out = []
    conv = sa.get_conventional_system()
    prim = sa.get_primitive_system()
    cen = sa.get_space_group_international_short()[0]
    m = MULT[cen]
    L = {"original": (sa.get_wyckoff_letters_original(), sa.get_equivalent_atoms_original(), a.get_atomic_numbers()),
         "primitive": (sa.get_wyckoff_letters_primitive(), sa.get_equivalent_atoms_primitive(), prim.get_atomic_numbers()),
         "conventional": (sa.get_wyckoff_letters_conventional(), sa.get_equivalent_atoms_conventional(), conv.get_atomic_numbers())}
    counts = {}
    for name, (w, e, z) in L.items():
        if not (len(w) == len(e) == len(z)):
            out.append("%s: label arrays have lengths %d/%d for %d atoms" % (name, len(w), len(e), len(z)))
            continue
        cls = {}
        for wi, ei, zi in zip(w, e, z):
            if cls.setdefault(int(ei), (str(wi), int(zi))) != (str(wi), int(zi)):
                out.append("%s: equivalent atoms %d carry different (letter, element)" % (name, ei))
                break
        counts[name] = Counter((str(wi), int(zi)) for wi, zi in zip(w, z))
    if len(counts) == 3:
        for x, y in (("original", "conventional"), ("primitive", "conventional")):
            nx, ny = sum(counts[x].values()), sum(counts[y].values())
            for key in set(counts[x]) | set(counts[y]):
                if counts[x][key] * ny != counts[y][key] * nx:
                    out.append("(letter, element) counts of %s and %s are not in the ratio of the atom counts: %s" % (x, y, key))
                    break
    if len(prim) * m != len(conv):
        out.append("primitive has %d atoms, conventional %d, centring %s" % (len(prim), len(conv), cen))
    if abs(prim.get_volume() * m - conv.get_volume()) > 1e-6 * conv.get_volume():
        out.append("primitive volume %.6f x %d != conventional volume %.6f" % (prim.get_volume(), m, conv.get_volume()))
    if abs(prim.get_volume() / len(prim) - a.get_volume() / len(a)) > 1e-3 * a.get_volume() / len(a):
        out.append("volume per atom differs from the input")
    cellp = (np.array(prim.get_cell()), prim.get_scaled_positions(), prim.get_atomic_numbers())
    ds = spglib.get_symmetry_dataset(cellp, symprec=1e-3)
    if ds is None or ds.number != n:
        out.append("primitive system has space group %s" % (None if ds is None else ds.number))
    fp = spglib.find_primitive(cellp, symprec=1e-3)
    if fp is not None and len(fp[2]) != len(prim):
        out.append("primitive system is not primitive (%d atoms reducible to %d)" % (len(prim), len(fp[2])))
    return out


def corr_letters_original(ctx, n_cases):
    """get_wyckoff_letters_original driven directly: spglib's letters and the chosen normalizer's permutation are injected, the result
    is compared with the Lean model (letters carried through the permutation, `permletters`); every tabulated permutation that is
    not an involution is included (for those, applying the inverse instead is visible)"""
    import sym_common as S
    from ase import Atoms
    from matid.symmetry.symmetryanalyzer import SymmetryAnalyzer
    rng = np.random.default_rng(ctx.seed + 12012)
    N = S.norm_tables()
    perms = []
    for n in sorted(N):
        for q in N[n]:
            p = q["permutations"]
            if any(p.get(p[a]) != a for a in p):
                perms.append((n, p))
    while len(perms) < n_cases:
        n = int(rng.integers(1, 231))
        if N.get(n):
            perms.append((n, N[n][int(rng.integers(0, len(N[n])))]["permutations"]))
    lines, real = [], []
    dummy = Atoms("Cu", positions=[[0, 0, 0]], cell=[3, 3, 3], pbc=True)
    for n, perm in perms[:max(n_cases, len(perms))]:
        keys = sorted(perm)
        letters = [keys[int(i)] for i in rng.integers(0, len(keys), int(rng.integers(1, 12)))]
        sa = SymmetryAnalyzer(dummy, symmetry_tol=1e-3)
        sa._best_transform = {"permutations": perm}
        sa._get_spglib_wyckoff_letters_original = lambda letters=letters: np.array(letters)
        try:
            got = ",".join(str(ord(c)) for c in sa.get_wyckoff_letters_original())
        except KeyError:
            got = "KeyError"
        lines.append("permletters %s %s" % (S.perm_str(perm), ",".join(str(ord(c)) for c in letters)))
        real.append(got)
        ctx.count("letters_original_noninvolutive" if any(perm.get(perm[a]) != a for a in perm) else "letters_original_involutive")
    out = driver(lines)
    mism = []
    for l, o, r in zip(lines, out, real):
        ctx.case(("permletters", l))
        if o != r:
            mism.append({"what": "get_wyckoff_letters_original", "op": l, "model": o, "real": r})
    return mism


def monitor(ctx, groups):
    import crystals
    rng = np.random.default_rng(ctx.seed + 1212)
    bad = []
    for n in groups:
        made = None
        for _ in range(10):
            made = crystals.ase_crystal(n, rng, max_atoms=80)
            if made:
                break
        if not made:
            ctx.count("e2e_no_crystal")
            continue
        atoms, meta = made
        variants = [("as-built", atoms, {})]
        a2, desc = crystals.present(atoms, rng, shear=False, rotate=False)
        if len(a2) <= 160:
            variants.append(("permuted-supercell", a2, desc))
        for label, a, desc in variants:
            try:
                res = check_crystal(a, n, meta)
            except Exception as e:  # noqa
                res = ["exception %r" % e]
            if res is None:
                ctx.count("e2e_discarded_group_changed")
                continue
            ctx.case(("e2e", n, label, len(a), json.dumps(desc, sort_keys=True)[:100]))
            ctx.count("e2e_" + label)
            if res:
                bad.append({"group": n, "complaints": res, "atoms": crystals.atoms_to_json(a), "presentation": desc, "meta": meta})
    return bad


def run(ctx):
    common.install_matid()
    import gen_tables
    import gen_centring
    broken = []
    terr = common.regen(ctx, ("tables", "centring"))
    if terr:
        for t in THEOREMS:
            ctx.obligations.append((t, False))
        broken.append(("translator", terr))
    else:
        ok, info = prove(ctx, "MatidProps.C12", THEOREMS)
        if not ok:
            broken.append(("proof", info))
    mism = []
    try:
        mism = correspondence(ctx, ctx.n(800, 20000))
        mism += corr_letters_original(ctx, ctx.n(150, 2000))
    except common.DriverError as e:
        broken.append(("driver", {"error": str(e)[-1000:]}))
    if mism:
        broken.append(("correspondence", {"mismatches": mism[:5], "count": len(mism)}))
    rng = np.random.default_rng(ctx.seed)
    # all centring types in every run: A 38-41, C 5.., I, F, R, P
    must = [38, 40, 5, 12, 15, 20, 63, 146, 148, 155, 160, 166, 167, 23, 44, 71, 79, 87, 139, 197, 204, 229, 22, 42, 69, 196, 202, 216, 225, 227, 1, 2, 14, 62, 221]
    groups = list(range(1, 231)) * 3 if ctx.thorough() else must + sorted(rng.choice(np.arange(1, 231), 35, replace=False).tolist())
    bad = monitor(ctx, groups)
    for b in bad[:6]:
        ctx.finding("crystal:%d:%s" % (b["group"], b["complaints"][0][:40]), "group %d: %s" % (b["group"], b["complaints"][0]), {"kind": "failing-input", "case": b})
    import analyzer_hist
    analyzer_hist.check(ctx, "C12", broken)
    if broken and not ctx.unknown_findings():
        import sym_common as S
        import crystals
        N = S.norm_tables()
        noninv = [n for n in sorted(N) if any(any(q["permutations"].get(q["permutations"][a]) != a for a in q["permutations"]) for q in N[n])]
        drng = np.random.default_rng(ctx.seed + 121212)
        nd = 0
        for n, a1, a2, meta in S.directed_crystals(ctx, (S.broken_groups(broken) + noninv)[:14], drng, per_letter=1):
            try:
                res = check_crystal(a2, n, {})
            except Exception as e:  # noqa
                res = ["exception %r" % e]
            ctx.count("directed_crystals")
            if res and nd < 3:
                nd += 1
                ctx.finding("crystal:%d:%s" % (n, res[0][:40]), "group %d (directed, letter %s): %s" % (n, meta["letter"], res[0]),
                            {"kind": "failing-input", "case": {"group": n, "complaints": res, "atoms": crystals.atoms_to_json(a2), "presentation": meta}})
    if broken and not ctx.unknown_findings():
        ctx.finding("unproved", "proof/correspondence broken, no failing crystal found", {"kind": "broken-obligation", "broken": broken}, found_input=False)
    ctx.coverage["broken"] = [{"what": k, "info": i} for k, i in broken]
    ctx.coverage["correspondence_mismatches"] = len(mism)
    ctx.assumptions += ["S2/S3: every primitive label occurs exactly m_c times in spglib's std_mapping_to_primitive and equal labels share letter and element (hypotheses of class_counts_ratio; monitored end to end)",
                        "LAPACK inv in _get_primitive_system is accurate to 1e-6 on the sampled cells"]
    return common.finish(ctx, "proof", "synthetic conventional systems (dyadic cells/positions, all centring letters, label multiplicities exact or perturbed) through "
                         "_get_primitive_system vs the Lean model; end-to-end crystals of all centring types (distinct = distinct op line / (group, presentation))",
                         TRUSTED, "cd /verif/lean && lake build MatidProps.C12 (+ #print axioms)")


def replay(path):
    common.install_matid()
    import crystals
    r = json.load(open(path))
    c = r.get("case", {})
    if "atoms" in c:
        print("complaints now:", check_crystal(crystals.atoms_from_json(c["atoms"]), c["group"], c.get("meta")))
    print(json.dumps({k: v for k, v in r.items() if k != "case"}, indent=1)[:1500])
    return 0
