"""Correspondence for the geometric helpers of the periodic finder that are inside the Lean model
(MatidModel/WithinBasis.lean): matid.geometry.get_positions_within_basis — shared by C02, C03, C04 (the prototype-cell
population step named in their anchors).

Inputs are dyadic (cells, positions, bases, origins in 64ths), so the model's exact rationals are the real code's doubles;
cases in which a decision of the real code sits within 1e-9 of a rounding boundary (a corner's scaled coordinate at an
integer, a relative coordinate at the padded face) are skipped and counted.  Output order is compared too (image-major,
then atom index)."""
import numpy as np

import common
import geom_common as GC

THEOREMS = ["Matid.Props.Finder." + t for t in ("within_basis_sound", "within_basis_complete_in_scanned_box", "within_basis_no_duplicates",
                                                  "all_corners_complete", "omitted_corner_witness")]


def _case(rng, k):
    from ase import Atoms
    cell, kind = GC.rand_cell(rng)
    n = int(rng.integers(1, 9))
    pos, _ = GC.rand_positions_inside(rng, cell, n)
    pbc = [bool(b) for b in (rng.random(3) < 0.7)]
    if k % 5 == 0:
        pbc = [True, True, True]
    # basis: a small cell, often built from lattice-like combinations so that images matter
    mode = k % 4
    if mode == 0:
        basis = GC.dy(np.diag(rng.uniform(0.5, 2.5, 3)) + rng.uniform(-0.5, 0.5, (3, 3)))
    elif mode == 1:
        basis = GC.dy(cell / rng.integers(1, 4, 3)[:, None])
    elif mode == 2:
        basis = GC.dy((GC.rand_unimodular(rng, k=2, maxent=1) @ cell) / 2.0)
    else:       # all three vectors leaning the same way / pointing backwards: the corners the code does not look at matter
        basis = GC.dy(np.array([[1, 0.25, 0.25], [0.5, 1, 0.25], [0.5, 0.25, 1]]) * rng.uniform(0.5, 2.0) * (1 if rng.random() < 0.5 else -1))
    if abs(np.linalg.det(basis)) < 0.02:
        basis = GC.dy(np.eye(3) * rng.uniform(0.5, 2.0))
    origin = pos[int(rng.integers(0, n))].copy() if rng.random() < 0.6 else GC.dy(rng.random(3) @ cell)
    tol = [1 / 8.0, 1 / 4.0, 1 / 2.0, 1 / 16.0][int(rng.integers(0, 4))]
    mask = [True, True, True] if rng.random() < 0.8 else [bool(b) for b in (rng.random(3) < 0.6)]
    return Atoms(numbers=[29] * n, positions=pos, cell=cell, pbc=pbc), basis, origin, tol, mask, kind


def _near_boundary(system, basis, origin, tol, mask):
    """true when a float decision of the real function is within 1e-9 of flipping"""
    import matid.geometry as G
    cell = np.array(system.get_cell())
    corners = [origin + basis[0], origin + basis[1], origin + basis[0] + basis[1], origin + basis[0] + basis[2], origin + basis[1] + basis[2],
               origin + basis.sum(axis=0)]
    rel = np.linalg.solve(cell.T, np.array(corners).T).T
    if np.abs(rel - np.rint(rel)).min() < 1e-9:
        return True
    prec = tol / np.linalg.norm(basis, axis=1)
    fl = np.floor(rel).astype(int)
    lo, hi = fl.min(axis=0), fl.max(axis=0)
    inv = np.linalg.inv(basis.T).T
    for i in range(lo[0], hi[0] + 1):
        for j in range(lo[1], hi[1] + 1):
            for k in range(lo[2], hi[2] + 1):
                r = (system.get_positions() + np.array([i, j, k]) @ cell - origin) @ inv
                for ax in range(3):
                    if mask[ax] and (np.abs(r[:, ax] + prec[ax]).min() < 1e-9 or np.abs(r[:, ax] - 1 - prec[ax]).min() < 1e-9):
                        return True
    return False


def corr_within_basis(ctx, n_cases):
    import matid.geometry as G
    rng = np.random.default_rng(ctx.seed + 4242)
    lines, real = [], []
    for k in range(n_cases):
        system, basis, origin, tol, mask, kind = _case(rng, k)
        if _near_boundary(system, basis, origin, tol, mask):
            ctx.count("withinbasis_skipped_rounding_boundary")
            continue
        try:
            idx, rel, fac = G.get_positions_within_basis(system, basis.copy(), origin.copy(), tol, mask=list(mask), pbc=system.get_pbc())
            r = [(int(i), tuple(int(v) for v in f), tuple(float(x) for x in p)) for i, p, f in zip(idx, rel, fac)]
        except Exception as e:  # noqa
            r = "exception " + type(e).__name__
        lines.append("withinbasis %s %s %s %s %s %s %s" % (GC.fmt_vecs(system.get_cell()), GC.fmt_pbc(system.get_pbc()), GC.fmt_vecs(basis), GC.fmt_vecs(origin),
                                                         GC.fs(tol), GC.fmt_pbc(mask), GC.fmt_vecs(system.get_positions())))
        real.append(r)
        ctx.count("withinbasis_" + kind)
    out = common.driver(lines) if lines else []
    mism = []
    for line, o, r in zip(lines, out, real):
        ctx.case(("withinbasis", line), nontrivial=True, sample={"op": line[:160], "model": o[:80]} if len(ctx.samples) < 2 else None)
        if isinstance(r, str):
            if o != "singular":
                mism.append({"op": line, "model": o[:200], "real": r})
            continue
        model = []
        if o not in ("-", "singular", "bad-op"):
            for item in o.split(";"):
                i, f, p = item.split(":")
                model.append((int(i), tuple(int(v) for v in f.split(",")), tuple(float(common_frac(x)) for x in p.split(","))))
        ok = o not in ("singular", "bad-op") and len(model) == len(r) and all(
            m[0] == q[0] and m[1] == q[1] and np.allclose(m[2], q[2], atol=1e-9) for m, q in zip(model, r))
        if not ok:
            mism.append({"op": line, "model": o[:300], "real": str(r)[:300]})
    return mism


def common_frac(s):
    from fractions import Fraction
    return Fraction(s)


def witness_on_real_code():
    """the Lean witness `omitted_corner_witness` replayed on the real function (an observation, not a violation of a listed
    property): is the atom image inside the parallelepiped really not reported?"""
    import matid.geometry as G
    from ase import Atoms
    system = Atoms("Cu", positions=[[0.6, 0.6, 3.9]], cell=np.eye(3) * 4.0, pbc=True)
    basis = np.array([[1.0, 0, 1], [0, 1, 1], [0, 0, -1]])
    idx, rel, fac = G.get_positions_within_basis(system, basis, np.array([0.5, 0.5, 0.5]), 0.0, pbc=system.get_pbc())
    return {"reported": [int(i) for i in idx], "expected_if_complete": "atom 0 at offset (0,0,-1), relative position (0.1, 0.1, 0.8)",
            "missed_by_the_real_function": len(idx) == 0}


ENTRY_THEOREMS = ["Matid.Props.SbcEntry." + t for t in ("fixup_inside", "scale_ge_one", "displacement_scaled")] + ["Matid.Props.C01.entry_rules_ok", "Matid.Props.C13.constructors_forward_radii"]


def entry_items(a, system_seen, rng, kind=""):
    """the entry glue of get_clusters on one real run: the structure the finder was given (`system_seen`, FinderRecorder.system)
    against the model (driver op `sbcentry`), per non-periodic axis; returns [(line, (scale, new fractional coordinates, kind))]"""
    from geom_common import fs
    out = []
    cell0 = np.array(a.get_cell())
    if system_seen is None or abs(np.linalg.det(cell0)) <= 1e-6 or a.get_pbc().all():
        return out
    f0 = np.linalg.solve(cell0.T, a.get_positions().T).T
    f1 = np.linalg.solve(np.array(system_seen.get_cell()).T, system_seen.get_positions().T).T
    nonper = [i for i in range(3) if not a.get_pbc()[i]]
    anys = any(f0[:, i].max() > 1 or f0[:, i].min() < 0 for i in nonper)
    if any(min(abs(f0[:, i].max() - 1), abs(f0[:, i].min())) < 1e-9 for i in nonper):
        return out      # decisions within 1e-9 of the boundary are rounding questions, not logic
    for i in nonper:
        pick = [int(j) for j in rng.choice(len(a), min(4, len(a)), replace=False)]
        line = "sbcentry %d %s %s %s" % (int(anys), fs(f0[:, i].min()), fs(f0[:, i].max()), ",".join(fs(f0[j, i]) for j in pick))
        s_real = np.linalg.norm(np.array(system_seen.get_cell())[i]) / np.linalg.norm(cell0[i])
        out.append((line, (float(s_real), [float(f1[j, i]) for j in pick], kind)))
    return out


def entry_corr(ctx, items):
    from fractions import Fraction as Fr
    mism = []
    if not items:
        return mism
    for o, (line, (s_real, f_real, kind)) in zip(common.driver([l for l, _ in items]), items):
        ctx.case(("sbcentry", line), nontrivial=True)
        ctx.count("entry_axes" + ("_scaled" if line.split(" ")[1] == "1" else ""))
        try:
            sm, fm = o.split(" ")
            ok = abs(float(Fr(sm)) - s_real) < 1e-8 * max(1, s_real) and all(abs(float(Fr(x)) - y) < 1e-8 for x, y in zip(fm.split(","), f_real))
        except Exception:  # noqa
            ok = False
        if not ok:
            mism.append({"what": "entry fix-up of get_clusters (cell scale / new fractional coordinates along a non-periodic axis)", "op": line, "model": o[:200],
                         "real": "%r %r" % (s_real, f_real), "kind": kind})
    return mism


def distances_agree(a, radii="covalent"):
    """get_distances(a) is the minimum-image table of get_displacement_tensor for the structure's OWN pbc (whenever some direction is
    periodic), minus the sum of the radii — bit for bit; returns a description of the first difference or None"""
    import matid.geometry as G
    D = G.get_distances(a, radii)
    pbc = np.array(a.get_pbc(), dtype=bool)
    pos, cell = a.get_positions(), a.get_cell()
    if pbc.any():
        disp, fac, dist = G.get_displacement_tensor(pos, cell, pbc, return_factors=True, return_distances=True)
    else:
        disp, dist = G.get_displacement_tensor(pos, return_distances=True)
        fac = np.zeros(disp.shape)
    r = G.get_radii(radii, a.get_atomic_numbers())
    if not np.array_equal(np.asarray(D.dist_matrix_mic), np.asarray(dist)):
        return "dist_matrix_mic is not the minimum-image table for pbc %s" % pbc.tolist()
    if not np.array_equal(np.asarray(D.disp_factors), np.asarray(fac)):
        return "disp_factors differ from the minimum-image table for pbc %s" % pbc.tolist()
    if np.asarray(D.dist_matrix_radii_mic).dtype != np.float64 or not np.array_equal(np.asarray(D.dist_matrix_radii_mic), np.asarray(dist) - (r[:, None] + r[None, :])):
        return "dist_matrix_radii_mic is not dist_matrix_mic - (r_i + r_j) in double precision"
    return None


PIPELINE_THEOREMS = ["Matid.Props.C01." + t for t in ("pipeline_wellformed", "pipeline_order_ok", "merge_species_invariant", "merge_keeps_atoms_in_range")]


def pipeline_corr(ctx, broken, items):
    """recorded finder histories of real get_clusters runs replayed through the Lean pipeline; items = [(line, clusters, description)]"""
    import sbc_common as SC
    terr = common.regen(ctx, ("sbc_rule",))
    if terr:
        broken.append(("sbc-rule-translator", terr))
    ok, info = common.prove(ctx, "MatidProps.C01", PIPELINE_THEOREMS)
    if not ok:
        broken.append(("pipeline-proof", info))
    items = [it for it in items if it[0] is not None]
    dd = []
    for _, clusters, desc in items[:10]:
        try:
            why = distances_agree(clusters[0]._system)
        except Exception as e:  # noqa
            why = "exception %r" % e
        ctx.count("get_distances_vs_displacement_tensor")
        if why:
            dd.append({"what": why, "case": desc})
    if dd:
        broken.append(("distances-correspondence", {"function": "matid.geometry.get_distances", "count": len(dd), "mismatches": dd[:3]}))
    if not items:
        return
    try:
        outs = common.driver([it[0] for it in items])
    except common.DriverError as e:
        broken.append(("driver", {"error": str(e)[-800:]}))
        return
    mism = []
    for (line, clusters, desc), o in zip(items, outs):
        ctx.case(("sbcrun", hash(line) & 0xffffffff), nontrivial=True)
        ctx.count("pipeline_replays")
        if not SC.sbcrun_agrees(o, clusters):
            mism.append({"what": "clusters returned by get_clusters differ from the recorded finder history pushed through merge -> localize -> clean of the model",
                         "case": desc, "model": o[:300], "real": ";".join(SC.dots(c.indices) for c in clusters)[:300]})
    if mism:
        broken.append(("pipeline-correspondence", {"function": "SBC._merge_clusters / _localize_clusters / _clean_clusters", "count": len(mism), "of": len(items), "mismatches": mism[:3]}))


ADAPTIVE_THEOREMS = ["Matid.Props.Adaptive." + t for t in ("measured_plus", "measured_minus", "adaptive_close")]


def adaptive_corr(ctx, records):
    """adaptive cell vectors recorded in real runs (sbc_common.ProtoRecorder.adaptive) vs the Lean model (`adaptcell`)"""
    import sbc_common as SC
    from fractions import Fraction as Fr
    if not records:
        return []
    lines = [SC.adaptive_line(r) for r in records]
    mism = []
    for r, o, al in zip(records, common.driver(lines), lines):
        ctx.case(("adaptcell", al), nontrivial=r["add"] is not None or r["sub"] is not None)
        ctx.count("adaptive_" + ("plus" if r["add"] is not None else "minus" if r["sub"] is not None else "span"))
        try:
            ok = np.allclose([float(Fr(x)) for x in o.split(",")], r["real"], atol=1e-9)
        except Exception:  # noqa
            ok = False
        if not ok:
            mism.append({"what": "adaptive cell vector of _find_proto_cell_3d", "op": al[:400], "model": o[:120], "real": [float(x) for x in r["real"]]})
    return mism


def check(ctx, broken, adaptive_records=None, entry=None):
    """proof + correspondence of the finder helpers; appends to `broken`"""
    try:
        ctx.coverage["omitted_corner_witness_on_real_code"] = witness_on_real_code()
    except Exception as e:  # noqa
        ctx.coverage["omitted_corner_witness_on_real_code"] = {"error": repr(e)}
    ok, info = common.prove(ctx, "MatidProps.Finder", THEOREMS)
    if not ok:
        broken.append(("finder-helpers-proof", info))
    if entry is not None:
        terr = common.regen(ctx, ("sbc_rule",))
        if terr:
            broken.append(("sbc-rule-translator", terr))
        ok, info = common.prove(ctx, "MatidProps.C01", ENTRY_THEOREMS, extra_imports=("MatidProps.SbcEntryProps", "MatidProps.C13"), gen_targets=("MatidProps.SbcEntryProps", "MatidProps.C13"))
        if not ok:
            broken.append(("entry-glue-proof", info))
        try:
            em = entry_corr(ctx, entry)
        except common.DriverError as e:
            broken.append(("driver", {"error": str(e)[-800:]}))
            em = []
        if em:
            broken.append(("entry-glue-correspondence", {"function": "SBC.get_clusters (box fix-up along non-periodic axes)", "count": len(em), "mismatches": em[:3]}))
    if adaptive_records is not None:
        ok, info = common.prove(ctx, "MatidProps.AdaptiveProps", ADAPTIVE_THEOREMS)
        if not ok:
            broken.append(("adaptive-cell-proof", info))
        try:
            am = adaptive_corr(ctx, adaptive_records)
        except common.DriverError as e:
            broken.append(("driver", {"error": str(e)[-800:]}))
            am = []
        if am:
            broken.append(("adaptive-cell-correspondence", {"function": "PeriodicFinder._find_proto_cell_3d (cell vectors)", "count": len(am), "mismatches": am[:3]}))
    try:
        mism = corr_within_basis(ctx, ctx.n(400, 20000))
    except common.DriverError as e:
        broken.append(("driver", {"error": str(e)[-800:]}))
        mism = []
    if mism:
        broken.append(("finder-helpers-correspondence", {"function": "matid.geometry.get_positions_within_basis", "count": len(mism), "mismatches": mism[:4]}))
    ctx.coverage["finder_helper_mismatches"] = len(mism)
    return mism
