"""Region tracking of PeriodicFinder (_find_periodic_region / _find_region_rec / _find_new_seeds_and_cell) against the Lean model
(lean/MatidModel/Region.lean, driver op `region`).

The recorder wraps `_find_periodic_region` during real runs (get_clusters / classify), records what `get_matches` and
`get_matches_simple` answered inside it, in call order, and what the real function produced (units in order of creation, atom → cell
map, search graph, basis indices, connected directions).  The model is then run on the same oracle answers and everything it
produces is compared."""
from fractions import Fraction as Fr

import numpy as np

import common
from geom_common import fmt_vecs, fs

THEOREMS = ["Matid.Props.Region." + t for t in (
    "rule_ok", "cells_processed_once", "seeds_extend_once", "terminates", "basis_atoms_have_a_processed_cell", "substitution_reported_once",
    "every_seed_extends", "graph_targets_are_mapped", "basis_indices_spec", "connected_direction_spec", "accepted_iff")]


class RegionRecorder:
    def __init__(self, max_records=60, max_atoms=700, stride=3):
        self.records = []
        self.max_records = max_records
        self.max_atoms = max_atoms
        self.stride = stride
        self.cur = None
        self.seen = 0

    def __enter__(self):
        import matid.geometry as G
        from matid.core.periodicfinder import PeriodicFinder
        self.G, self.PF = G, PeriodicFinder
        rec = self
        self.orig_region = PeriodicFinder._find_periodic_region
        self.orig_m, self.orig_s = G.get_matches, G.get_matches_simple

        def gm(system, cell_list, positions, numbers, tolerance):
            out = rec.orig_m(system, cell_list, positions, numbers, tolerance)
            if rec.cur is not None:
                matches, substitutions, vacancies, _ = out
                rec.cur["events"].append(("M", [None if m is None else int(m) for m in matches],
                                          [None if s is None else int(s.index) for s in substitutions],
                                          [np.array(v.position, dtype=float).copy() for v in vacancies]))
            return out

        def gs(system, cell_list, positions, numbers, tolerance):
            out = rec.orig_s(system, cell_list, positions, numbers, tolerance)
            if rec.cur is not None:
                matches, disps = out
                rec.cur["events"].append(("S", [None if m is None else int(m) for m in matches],
                                          [None if d is None else np.array(d, dtype=float).copy() for d in disps]))
            return out

        def region(finder, system, is_2d, seed_index, unit_cell, seed_position, periodic_indices):
            rec.seen += 1
            take = len(rec.records) < rec.max_records and len(system) <= rec.max_atoms and rec.cur is None and (rec.seen - 1) % rec.stride == 0
            if take:
                rec.cur = {"events": [], "pos": system.get_positions().copy(), "is2d": bool(is_2d), "seed": int(seed_index),
                           "basis": np.array(unit_cell.get_cell(), dtype=float).copy(), "tol": float(finder.pos_tol),
                           "nper": len(periodic_indices)}
            try:
                coll = rec.orig_region(finder, system, is_2d, seed_index, unit_cell, seed_position, periodic_indices)
            except BaseException:
                if take:
                    rec.cur = None
                raise
            if take:
                cur, rec.cur = rec.cur, None
                cur["units"] = [{"index": tuple(int(v) for v in k), "seed": None if u.seed_index is None else int(u.seed_index),
                                 "seedPos": np.array(u.seed_coordinate, dtype=float).copy(), "cell": np.array(u.cell, dtype=float).copy(),
                                 "basis": [None if b is None else int(b) for b in u.basis_indices],
                                 "substs": [None if s is None else int(s.index) for s in u.substitutions], "nvac": len(u.vacancies)}
                                for k, u in coll.items()]
                cur["icm"] = {int(k): tuple(int(x) for x in v) for k, v in coll._index_cell_map.items() if k is not None}
                cur["edges"] = sorted((tuple(int(x) for x in a), tuple(int(x) for x in b), tuple(int(x) for x in d["multiplier"]))
                                      for a, b, d in coll._search_graph.edges(data=True))
                cur["basisIndices"] = sorted(int(i) for i in coll.get_basis_indices())
                cur["connected"] = [bool(b) for b in coll.get_connected_directions()]
                rec.records.append(cur)
            return coll

        PeriodicFinder._find_periodic_region = region
        G.get_matches, G.get_matches_simple = gm, gs
        return self

    def __exit__(self, *a):
        self.PF._find_periodic_region = self.orig_region
        self.G.get_matches, self.G.get_matches_simple = self.orig_m, self.orig_s
        return False


def _opt(l):
    return ",".join("_" if x is None else str(x) for x in l) or "-"


def oracle_entries(events):
    """group the recorded answers: one get_matches answer, optionally followed by one get_matches_simple answer;
    returns (entries, shape_ok)"""
    entries, ok = [], True
    for ev in events:
        if ev[0] == "M":
            entries.append([ev, None])
        else:
            if not entries or entries[-1][1] is not None:
                ok = False
                continue
            entries[-1][1] = ev
    return entries, ok


def region_line(r):
    entries, ok = oracle_entries(r["events"])
    parts = []
    for m, s in entries:
        vac = fmt_vecs(np.array(m[3])) if m[3] else "-"
        if s is None:
            parts.append("%s;%s;%s;N;-;-" % (_opt(m[1]), _opt(m[2]), vac))
        else:
            d = np.array([np.zeros(3) if x is None else x for x in s[2]]) if s[2] else np.zeros((0, 3))
            parts.append("%s;%s;%s;S;%s;%s" % (_opt(m[1]), _opt(m[2]), vac, _opt(s[1]), fmt_vecs(d) if len(d) else "-"))
    tol = Fr(r["tol"])
    fuel = 40 * (len(r["pos"]) + 2) + 10
    return "region %d %s %d %s %s %s %d %s" % (1 if r["is2d"] else 0, str(tol * tol), r["seed"], fmt_vecs(r["pos"][r["seed"]]),
                                                fmt_vecs(r["basis"]), fmt_vecs(r["pos"]), fuel, "|".join(parts) or "-"), entries, ok


def _vacancy_edge(r, entries):
    """a vacancy whose distance to an earlier one is within 1e-9 of the tolerance: the exact comparison of the model may differ"""
    seen = []
    for m, _ in entries:
        new = []
        for v in m[3]:
            if seen:
                d = np.linalg.norm(np.array(seen) - v, axis=1).min()
                if abs(d - r["tol"]) < 1e-9:
                    return True
                if d > r["tol"]:
                    new.append(v)
            else:
                new.append(v)
        seen.extend(new)
    return False


def _parse_vec(s):
    return np.array([float(Fr(x)) for x in s.split(",")])


def compare(r, out, entries, shape_ok):
    """returns None when model and code agree, else a description"""
    if not shape_ok:
        return "get_matches_simple was consulted in a call pattern the model does not have (twice in one call, or before get_matches)"
    f = out.split(" ")
    if len(f) != 6:
        return "model output: " + out[:200]
    head, units, icm, edges, basis, conn = f
    calls, seed_calls, qlen = [int(x) for x in head.split(";")]
    if qlen != 0:
        return "model queue not empty within the fuel bound (%d left)" % qlen
    n_s = sum(1 for _, s in entries if s is not None)
    if calls != len(entries) or seed_calls != n_s:
        return "oracle consultations differ: model %d/%d, code %d/%d" % (calls, seed_calls, len(entries), n_s)
    # which calls consulted get_matches_simple is checked through the units/edges below
    mu = [] if units == "-" else units.split("|")
    if len(mu) != len(r["units"]):
        return "number of units: model %d, code %d" % (len(mu), len(r["units"]))
    for k, (a, u) in enumerate(zip(mu, r["units"])):
        idx, seed, sp, cell, b, su, nv = a.split(":")
        if tuple(int(x) for x in idx.split(",")) != u["index"]:
            return "unit %d: cell index model %s, code %s" % (k, idx, u["index"])
        if seed != ("_" if u["seed"] is None else str(u["seed"])):
            return "unit %d: seed index model %s, code %s" % (k, seed, u["seed"])
        if not np.allclose(_parse_vec(sp), u["seedPos"], atol=1e-8):
            return "unit %d: seed position differs" % k
        if not np.allclose(_parse_vec(cell).reshape(3, 3), u["cell"], atol=1e-8):
            return "unit %d (%s): updated cell basis differs: model %s, code %s" % (k, idx, _parse_vec(cell).round(6).tolist(), u["cell"].round(6).tolist())
        if b != _opt(u["basis"]):
            return "unit %d: basis indices model %s, code %s" % (k, b, _opt(u["basis"]))
        if su != _opt(u["substs"]):
            return "unit %d: substitutions model %s, code %s" % (k, su, _opt(u["substs"]))
        if int(nv) != u["nvac"]:
            return "unit %d: vacancies model %s, code %d" % (k, nv, u["nvac"])
    micm = {} if icm == "-" else {int(x.split("=")[0]): tuple(int(v) for v in x.split("=")[1].split(",")) for x in icm.split("|")}
    if micm != r["icm"]:
        diff = [(k, micm.get(k), r["icm"].get(k)) for k in sorted(set(micm) | set(r["icm"])) if micm.get(k) != r["icm"].get(k)]
        return "atom -> cell map differs (atom, model, code): %s" % (diff[:4],)
    me = sorted(tuple(tuple(int(v) for v in p.split(",")) for p in e.split(">")) for e in ([] if edges == "-" else edges.split("|")))
    if me != r["edges"]:
        return "search graph edges differ: model %d, code %d" % (len(me), len(r["edges"]))
    mb = sorted(int(x) for x in ([] if basis == "-" else basis.split(",")))
    if mb != r["basisIndices"]:
        return "basis indices differ: model %d atoms, code %d atoms" % (len(mb), len(r["basisIndices"]))
    if [c == "1" for c in conn] != r["connected"]:
        return "connected directions: model %s, code %s" % (conn, r["connected"])
    return None


def check(ctx, broken, records, prove=True):
    """proof obligations of the region model + correspondence on the recorded runs"""
    if prove:
        terr = common.regen(ctx, ("region_rule",))
        if terr:
            broken.append(("region-rule-translator", terr))
        ok, info = common.prove(ctx, "MatidProps.RegionProps", THEOREMS, gen_targets=("MatidGen.RegionRule",))
        if not ok:
            broken.append(("region-tracking-proof", info))
    if not records:
        return
    lines, metas = [], []
    for r in records:
        line, entries, ok = region_line(r)
        if _vacancy_edge(r, entries):
            ctx.count("region_vacancy_tolerance_edge_skipped")
            continue
        lines.append(line)
        metas.append((r, entries, ok))
    try:
        outs = common.driver(lines)
    except common.DriverError as e:
        broken.append(("driver", {"error": str(e)[-800:]}))
        return
    mism = []
    for (r, entries, ok), out, line in zip(metas, outs, lines):
        ctx.case(("region", r["seed"], len(r["pos"]), len(entries), r["is2d"], hash(line) & 0xffffffff), nontrivial=len(r["units"]) > 1)
        ctx.count("region_runs_2d" if r["is2d"] else "region_runs_3d")
        ctx.count("region_units", len(r["units"]))
        ctx.count("region_oracle_calls", len(entries))
        if any(s is not None for u in r["units"] for s in u["substs"]):
            ctx.count("region_runs_with_substitutions")
        if any(u["nvac"] for u in r["units"]):
            ctx.count("region_runs_with_vacancies")
        d = compare(r, out, entries, ok)
        if d is not None:
            mism.append({"what": d, "atoms": len(r["pos"]), "seed": r["seed"], "is2d": r["is2d"], "op": line[:300] + (" …" if len(line) > 300 else "")})
    if mism:
        broken.append(("region-tracking-correspondence", {"function": "PeriodicFinder._find_periodic_region / _find_region_rec / _find_new_seeds_and_cell, LinkedUnitCollection",
                                                          "count": len(mism), "of": len(lines), "mismatches": mism[:3]}))
