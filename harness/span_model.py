"""First half of PeriodicFinder._find_proto_cell and _find_graphs against the Lean model (lean/MatidModel/SpanGraph.lean, driver op
`spangraph`).  Records come from sbc_common.ProtoRecorder.span: the answers of get_matches in the span loop, the neighbourhood nodes,
which periodic cell vectors are short enough, the metrics handed to _find_best_basis and the combination it chose (an oracle: the basis
selection itself is not modelled), the adjacency lists handed on, and what _find_graphs returned."""
import numpy as np

import common

THEOREMS = ["Matid.Props.SpanGraph." + t for t in (
    "metric_counts_matches", "metric_le_twice_neighbours", "periodic_metric_full", "periodic_span_always_valid",
    "edges_preserve_species", "periodic_edges_preserve_species", "expansion_preserves_species", "chain_same_species", "component_is_connected", "component_is_whole", "component_iff", "components_partition", "component_same_species", "seed_in_its_group")]


def _nodes(l):
    return ",".join("%d,%d,%d,%d" % (i, f[0], f[1], f[2]) for i, f in l) or "-"


def line(r):
    spans = []
    calls = r["calls"]
    for k in range(r["n_spans"]):
        if 2 * k + 1 >= len(calls):
            return None
        parts = []
        for matches, copies in (calls[2 * k], calls[2 * k + 1]):
            parts.append(",".join("_" if m is None else "%d:%d:%d:%d" % (m, c[0], c[1], c[2]) for m, c in zip(matches, copies)) or "-")
        spans.append(";".join(parts))
    per = "".join("1" if b else "0" for b in r["periodic_short"]) or "-"
    combo = ",".join(str(c) for c in r.get("combo", [])) or "-"
    return "spangraph %d %s %s %s %s" % (r["seed"], _nodes(r["neigh"]), per, combo, "|".join(spans) or "-")


def _pairs(s):
    if s == "-":
        return []
    out = []
    for e in s.split(";"):
        a, b = e.split(">")
        a = [int(v) for v in a.split(",")]
        b = [int(v) for v in b.split(",")]
        out.append(((a[0], tuple(a[1:])), (b[0], tuple(b[1:]))))
    return out


def compare(r, out):
    f = out.split(" ")
    if len(f) != 5:
        return "model output: " + out[:200]
    metrics = [] if f[0] == "-" else [int(v) for v in f[0].split(",")]
    valid = [] if f[1] == "-" else [int(v) for v in f[1].split(",")]
    if "valid_metrics" in r:
        if [metrics[i] for i in valid] != r["valid_metrics"]:
            return "metrics of the valid spans: model %s, code %s" % ([metrics[i] for i in valid][:12], r["valid_metrics"][:12])
    elif valid:
        return "the model finds %d valid spans, the code returned before choosing a basis" % len(valid)
    if "adj_add" in r:
        chosen = [] if f[2] == "-" else f[2].split("|")
        if len(chosen) != len(r["adj_add"]):
            return "number of chosen spans: model %d, code %d" % (len(chosen), len(r["adj_add"]))
        for k, (c, ra, rs) in enumerate(zip(chosen, r["adj_add"], r["adj_sub"])):
            a, s_, _ = c.split("/")
            if sorted(_pairs(a)) != sorted(ra):
                return "'+span' adjacency list of chosen span %d differs (model %d entries, code %d)" % (k, len(_pairs(a)), len(ra))
            if sorted(_pairs(s_)) != sorted(rs):
                return "'-span' adjacency list of chosen span %d differs (model %d entries, code %d)" % (k, len(_pairs(s_)), len(rs))
    if "graph_in" in r:
        chosen = [] if f[2] == "-" else f[2].split("|")
        for k, (c, ri) in enumerate(zip(chosen, r["graph_in"])):
            if sorted(_pairs(c.split("/")[2])) != sorted(ri):
                return "adjacency list of chosen span %d handed to _find_graphs differs" % k
        go = r.get("graph_out")
        if r.get("graphs_exception"):
            return None if f[3] == "None" else "the code raised %s in _find_graphs, the model returns groups" % r["graphs_exception"]
        if go is None:
            return None if f[3] == "None" else "_find_graphs returned nothing, the model returns groups"
        if f[3] == "None":
            return "_find_graphs returned %d groups, the model none" % len(go["groups"])
        mg = [frozenset((int(n.split(",")[0]), tuple(int(v) for v in n.split(",")[1:])) for n in g.split(";")) for g in f[3].split("|")]
        rg = [frozenset((i, tuple(fc)) for i, fc in g) for g in go["groups"]]
        if set(mg) != set(rg):
            return "atom networks differ: model %d groups of sizes %s, code %d groups of sizes %s" % (len(mg), sorted(len(g) for g in mg), len(rg), sorted(len(g) for g in rg))
        ms = None if f[4] == "None" else mg[int(f[4])]
        rs = None if go["seedGroup"] is None else rg[go["seedGroup"]]
        if ms != rs:
            return "seed group differs"
    return None


def check(ctx, broken, records):
    terr = common.regen(ctx, ("proto_rule",))
    if terr:
        broken.append(("proto-rule-translator", terr))
    ok, info = common.prove(ctx, "MatidProps.SpanGraphProps", THEOREMS, gen_targets=("MatidGen.ProtoRule",))
    if not ok:
        broken.append(("span-graph-proof", info))
    recs, lines = [], []
    for r in records:
        l = line(r)
        if l is None:
            ctx.count("spangraph_incomplete_record")
            continue
        recs.append(r)
        lines.append(l)
    if not lines:
        return
    try:
        outs = common.driver(lines)
    except common.DriverError as e:
        broken.append(("driver", {"error": str(e)[-800:]}))
        return
    mism = []
    for r, o, l in zip(recs, outs, lines):
        ctx.case(("spangraph", hash(l) & 0xffffffff), nontrivial=r["n_spans"] > 0)
        ctx.count("spangraph_runs")
        ctx.count("spangraph_spans", r["n_spans"])
        if r.get("graph_out"):
            ctx.count("spangraph_groups", len(r["graph_out"]["groups"]))
        d = compare(r, o)
        if d is not None:
            mism.append({"what": d, "seed": r["seed"], "spans": r["n_spans"], "neighbours": len(r["neigh"]), "op": l[:300] + (" …" if len(l) > 300 else "")})
    if mism:
        broken.append(("span-graph-correspondence", {"function": "PeriodicFinder._find_proto_cell (span loop, metric filter) and _find_graphs",
                                                     "count": len(mism), "of": len(lines), "mismatches": mism[:3]}))
