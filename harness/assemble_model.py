"""Basis assembly of PeriodicFinder._find_proto_cell_3d / _2d against the Lean model (lean/MatidModel/ProtoAssemble.lean, driver op
`assemble`).  Records come from sbc_common.ProtoRecorder.assemble (inputs of the assembly as the real run had them — the answers of
get_positions_within_basis per seed copy, the atom networks — and the prototype cell the real function returned)."""
from fractions import Fraction as Fr

import numpy as np

import common
from geom_common import fmt_vecs

THEOREMS = ["Matid.Props.Assemble." + t for t in (
    "rule_ok", "keep_iff", "unseen_group_never_kept", "rint_near", "rint_add_int", "moved_copy_near_reference", "moved_copy_image_invariant",
    "average_near_reference", "seed_group_tracked", "atoms_are_the_kept_groups")]


def _nodes(l):
    return ",".join("%d,%d,%d,%d" % (i, f[0], f[1], f[2]) for i, f in l) or "-"


def line(r):
    cells = "|".join("%s;%s" % (_nodes(n), fmt_vecs(p) if len(p) else "-") for n, p in r["cells"]) or "-"
    groups = "|".join(_nodes(g) for g in r["groups"]) or "-"
    return "assemble %d %d %s %s %s" % (1 if r["two"] else 0, r["seedGroup"], cells, groups, ",".join(str(z) for z in r["nums"]) or "-")


def _near_tie(r):
    """two occurrences of one group whose distance keys agree within 1e-9 while their positions differ by more than 1e-9 modulo
    the lattice: the float argmin and the exact one may then choose different reference copies"""
    from collections import OrderedDict
    dicts = [OrderedDict(zip(n, range(len(n)))) for n, _ in r["cells"]]
    for g in r["groups"]:
        occ = []
        for node in g:
            for d, (_, p) in zip(dicts, r["cells"]):
                if node in d:
                    occ.append(p[d[node]])
                    break
        if len(occ) < 2:
            continue
        occ = np.array(occ)
        if r["two"]:
            occ = occ.copy()
            occ[:, :2] %= 1
            keys = np.linalg.norm(occ[:, :2], axis=1)
        else:
            keys = np.linalg.norm(occ, axis=1)
        o = np.argsort(keys)
        if keys[o[1]] - keys[o[0]] < 1e-9:
            d = occ[o[1]] - occ[o[0]]
            if np.abs(d - np.rint(d)).max() > 1e-7 or np.abs(np.abs(d - np.floor(d)) - 0.5).min() < 1e-7:
                return True
    return False


def compare(r, out):
    f = out.split(" ")
    if len(f) != 2:
        return "model output: " + out[:200]
    atoms, seed = f
    m = [] if atoms == "-" else [(int(a.split(":")[0]), np.array([float(Fr(x)) for x in a.split(":")[1].split(",")])) for a in atoms.split("|")]
    if [z for z, _ in m] != r["out_numbers"]:
        return "atomic numbers of the prototype cell: model %s, code %s" % ([z for z, _ in m], r["out_numbers"])
    mp = np.array([p for _, p in m]) @ r["out_cell"] if m else np.zeros((0, 3))
    if not np.allclose(mp, r["out_positions"], atol=1e-7):
        k = int(np.argmax(np.abs(mp - r["out_positions"]).max(axis=1)))
        return "position of basis atom %d: model %s, code %s" % (k, mp[k].round(6).tolist(), r["out_positions"][k].round(6).tolist())
    ms = None if seed == "None" else int(seed)
    if ms != r["out_seed"]:
        return "seed group index: model %s, code %s" % (ms, r["out_seed"])
    return None


def check(ctx, broken, records, errors=()):
    terr = common.regen(ctx, ("assemble_rule",))
    if terr:
        broken.append(("assemble-rule-translator", terr))
    ok, info = common.prove(ctx, "MatidProps.AssembleProps", THEOREMS, gen_targets=("MatidGen.AssembleRule",))
    if not ok:
        broken.append(("basis-assembly-proof", info))
    if errors:
        ctx.count("assemble_recorder_errors", len(errors))
    if not records:
        return
    lines = [line(r) for r in records]
    try:
        outs = common.driver(lines)
    except common.DriverError as e:
        broken.append(("driver", {"error": str(e)[-800:]}))
        return
    mism = []
    for r, o, l in zip(records, outs, lines):
        ctx.case(("assemble", hash(l) & 0xffffffff, len(r["groups"]), len(r["cells"])), nontrivial=len(r["groups"]) > 1 or len(r["cells"]) > 1)
        ctx.count("assemble_2d" if r["two"] else "assemble_3d")
        ctx.count("assemble_groups", len(r["groups"]))
        if len(r["out_numbers"]) < len(r["groups"]):
            ctx.count("assemble_with_dropped_groups")
        d = compare(r, o)
        if d is not None:
            if _near_tie(r):
                ctx.count("assemble_near_tie_skipped")
                continue
            mism.append({"what": d, "two": r["two"], "groups": len(r["groups"]), "cells": len(r["cells"]), "op": l[:300] + (" …" if len(l) > 300 else "")})
    if mism:
        broken.append(("basis-assembly-correspondence", {"function": "PeriodicFinder._find_proto_cell_3d / _find_proto_cell_2d (occurrences, keep rule, averaging, seed group)",
                                                         "count": len(mism), "of": len(lines), "mismatches": mism[:3]}))
